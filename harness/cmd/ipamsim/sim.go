package main

import (
	"bytes"
	"encoding/json"
	"fmt"
	"math/rand"
	"net/http"
	"net/http/httptest"
	"sort"
	"strconv"
	"strings"
	"sync"

	restful "github.com/emicklei/go-restful"
	corev1 "k8s.io/api/core/v1"
	metav1 "k8s.io/apimachinery/pkg/apis/meta/v1"
	corelister "k8s.io/client-go/listers/core/v1"
	"tkestack.io/galaxy/pkg/api/galaxy/constant"
	"tkestack.io/galaxy/pkg/api/k8s/schedulerapi"
	"tkestack.io/galaxy/pkg/ipam/api"
	galaxyv1alpha1 "tkestack.io/galaxy/pkg/ipam/apis/galaxy/v1alpha1"
	galaxylisterpkg "tkestack.io/galaxy/pkg/ipam/client/listers/galaxy/v1alpha1"

	"verif/harness/model"
	"verif/harness/world"
)

const NS = "ns1"

// WLKind is a workload kind.
type WLKind int

const (
	KSts WLKind = iota
	KDp
	KTApp
	KBare
)

func (k WLKind) String() string { return [...]string{"sts", "dp", "tapp", "bare"}[k] }
func (k WLKind) keyType() string {
	return [...]string{"sts", "dp", "tapp", "NULL"}[k]
}

// Workload is one app (or a bare-pod "slot").
type Workload struct {
	Kind     WLKind
	Name     string
	Replicas int    // truth
	Exists   bool   // truth
	Policy   string // "", immutable, never
	Pool     string // pool annotation ("" = none)
	Ranges   string // request_ip_range JSON value ("" = none), e.g. [["10.1.0.2~10.1.0.5"],["10.2.0.9"]]
	RS       int    // replica set generation (dp)
	podSeq   int
}

func (wl *Workload) appName() string {
	if wl.Kind == KBare {
		return "NULL"
	}
	return wl.Name
}

func (wl *Workload) effPolicy() uint16 {
	if wl.Pool != "" {
		return 2
	}
	switch wl.Policy {
	case "immutable":
		return 1
	case "never":
		return 2
	}
	return 0
}

// PodRec is the harness's record of one pod incarnation.
type PodRec struct {
	Name, UID string
	WL        *Workload
	Index     int // sts/tapp index, -1 otherwise
	Offered   []string
	FilterOK  bool
	// snapshot taken at the last Filter (for M-sticky / M-multi)
	heldAtFilter         []string
	heldAfterFilter      []string // what the pod's key held right after its last filter
	reserveNotHandedOver []string // reserve of the app at the last filter, if that filter offered nodes without handing it over
	reservedAtFilter     []string
	FilterConfGen        int  // configuration generation at the last filter
	PoolSizeAtFilter     int  // size of the pod's pool visible at the last filter (-1 = no Pool object)
	UsedAtFilter         int  // IPs keyed to pods of the pod's deployment right before the last filter
	Exempt               bool // its IP was legitimately de-configured by a reload
	ProvAtBind           bool
}

// Step is one recorded step of a history.
type Step struct {
	N   int    `json:"n"`
	Op  string `json:"op"`
	Arg string `json:"arg,omitempty"`
	Res string `json:"res,omitempty"`
	Inj string `json:"inj,omitempty"`
}

// Sim is one simulated history in progress.
type Sim struct {
	W     *world.World
	Topo  *model.Topo
	rng   *rand.Rand
	WLs   []*Workload
	Pods  map[string]*PodRec // by UID
	Steps []Step
	stepN int
	// monitor state
	prevDump        map[string]world.DumpEntry
	allocStep       map[string]int // ip -> step at which its current key was first seen
	faultMode       world.InjectKind
	caseID          string
	api             http.Handler
	poolSizes       map[string]int // truth pool sizes (Pool objects), -1 = none
	confSeq         []*model.Topo
	lastOpErr       error
	released200     map[string]bool // IPs the API released in the current step
	everReleased200 map[string]bool // IPs the API ever released in this history
	reloadDropped   map[string]bool
	confGen         int
	pendingReload   *model.Topo
	pauseIPAM       func(method string, after bool) bool // set before runPaused: pause point between IPAM calls
	compound        bool                                 // an interleaved (two-goroutine) execution is in progress: steps skip their monitors
	faultTag        string                               // signature suffix of the execution mode
	recMu           sync.Mutex
	lastBindPod     string
	adminReserved   map[string]bool // harness's own record of reservations made and not yet undone
	provFault       bool
	simExtra
}

func (s *Sim) record(op, arg, res string) {
	s.recMu.Lock()
	defer s.recMu.Unlock()
	if s.compound {
		op = "~" + op // executed while another operation was paused at an API call
	}
	s.stepN++
	st := Step{N: s.stepN, Op: op, Arg: arg, Res: res}
	if len(s.W.In.Hit) > 0 {
		st.Inj = strings.Join(s.W.In.Hit, ",")
	}
	s.Steps = append(s.Steps, st)
}

func errStr(err error) string {
	if err == nil {
		return "ok"
	}
	e := err.Error()
	if len(e) > 160 {
		e = e[:160]
	}
	return "err: " + e
}

// NewSim builds a world over a generated topology with generated workloads.
// focus tunes the workload generator towards what a property is about ("" = balanced).
var focus string

func NewSim(rng *rand.Rand, caseID string, withProvider, withTApp bool) (*Sim, error) {
	t := model.GenTopo(rng)
	w := world.NewWorld(withTApp)
	w.ConfText = model.ConfText(t.Pools)
	w.SetConfigMap(w.ConfText)
	for _, n := range t.Nodes {
		w.AddNode(n.Name, n.IP)
	}
	if withProvider {
		w.Provider = &world.Provider{}
	}
	if err := w.StartPlugin(); err != nil {
		return nil, err
	}
	s := &Sim{W: w, Topo: t, rng: rng, Pods: map[string]*PodRec{}, caseID: caseID, allocStep: map[string]int{},
		poolSizes: map[string]int{}, released200: map[string]bool{}, everReleased200: map[string]bool{}, reloadDropped: map[string]bool{}}
	s.Counts = map[string]int{}
	s.adminReserved = map[string]bool{}
	s.replHist = map[string][]int{}
	s.poolEver = map[string]bool{"pa": true, "pb": true}
	s.prevPoolCnt, s.prevPoolBound, s.prevPoolHad = map[string]int{}, map[string]int{}, map[string]bool{}
	s.provState = map[string]string{}
	s.mountAPI()
	s.genWorkloads(withTApp)
	s.prevDump = w.Dump()
	return s, nil
}

func (s *Sim) mountAPI() {
	w := s.W
	ws := new(restful.WebService)
	ws.Path("/v1").Consumes(restful.MIME_JSON).Produces(restful.MIME_JSON)
	c := api.NewController(w.Plugin.GetIpam(), corelister.NewPodLister(w.PodIdx), w.Plugin.Release)
	ws.Route(ws.GET("/ip").To(c.ListIPs))
	ws.Route(ws.POST("/ip").To(c.ReleaseIPs))
	pc := &api.PoolController{PoolLister: galaxylisterpkg.NewPoolLister(w.PoolIdx),
		Client: world.WrapGalaxy(w.Galaxy, w.In), LockPoolFunc: w.Plugin.LockDpPool, IPAM: w.Plugin.GetIpam()}
	ws.Route(ws.GET("/pool/{name}").To(pc.Get))
	ws.Route(ws.POST("/pool").To(pc.CreateOrUpdate))
	ws.Route(ws.DELETE("/pool/{name}").To(pc.Delete))
	container := restful.NewContainer()
	container.Add(ws)
	s.api = container
}

func (s *Sim) genWorkloads(withTApp bool) {
	rng := s.rng
	pols := func() string {
		// skewed to immutable/never (70 %)
		switch x := rng.Intn(10); {
		case x < 3:
			return ""
		case x < 7:
			return "immutable"
		default:
			return "never"
		}
	}
	n := 2 + rng.Intn(3)
	poolNames := []string{"", "", "pa", "pb"}
	lastBare := ""
	for i := 0; i < n; i++ {
		wl := &Workload{Name: fmt.Sprintf("w%d", i), Replicas: 1 + rng.Intn(3), Exists: true, Policy: pols()}
		switch x := rng.Intn(10); {
		case x < 4:
			wl.Kind = KSts
			if rng.Intn(6) == 0 {
				wl.Pool = []string{"pa", "pb"}[rng.Intn(2)] // a non-deployment workload may carry the pool annotation too
			}
		case x < 8:
			wl.Kind = KDp
			wl.Pool = poolNames[rng.Intn(len(poolNames))]
			if focus == "C07" {
				wl.Pool = []string{"pa", "pa", "pb"}[rng.Intn(3)]
				wl.Replicas = 2 + rng.Intn(3)
			}
		case x < 9 && withTApp:
			wl.Kind = KTApp
		default:
			wl.Kind = KBare
			wl.Replicas = 1
			if rng.Intn(2) == 0 {
				wl.Name = fmt.Sprintf("b%d-%d", i, rng.Intn(3)) // looks stateful: name-<digits>
			} else {
				wl.Name = fmt.Sprintf("b%d", i)
			}
			if lastBare != "" && rng.Intn(2) == 0 {
				// the key of the earlier bare pod is a proper string prefix of this one's (web-1 / web-10)
				wl.Name = lastBare + "0"
			}
			lastBare = wl.Name
		}
		// requested ranges for non-deployment workloads sometimes
		rangesOneIn := 4
		if focus == "C10" {
			rangesOneIn = 2
		}
		if focus == "C08" {
			rangesOneIn = 1
			if wl.Kind == KDp && rng.Intn(2) == 0 {
				wl.Kind, wl.Pool = KSts, ""
			}
		}
		if wl.Kind != KDp && rng.Intn(rangesOneIn) == 0 {
			wl.Ranges = s.genRanges()
		}
		s.WLs = append(s.WLs, wl)
		s.replHist[wl.Name] = append(s.replHist[wl.Name], wl.Replicas)
		s.applyWorkload(wl)
	}
	// deliver the initial workload objects
	for s.W.Pending("sts") > 0 {
		s.W.Deliver("sts", false)
	}
	for s.W.Pending("dp") > 0 {
		s.W.Deliver("dp", false)
	}
	// a sized pool sometimes
	for _, pn := range []string{"pa", "pb"} {
		if rng.Intn(2) == 0 || focus == "C07" {
			sz := 1 + rng.Intn(3)
			s.W.SetPool(pn, sz, false)
			s.poolSizes[pn] = sz
		}
	}
	for s.W.Pending("pools") > 0 {
		s.W.Deliver("pools", false)
	}
}

// genRanges builds k ∈ 1..3 pairwise-disjoint range lists over the configured IPs (plus sometimes unconfigured ones).
func (s *Sim) genRanges() string {
	rng := s.rng
	var all []uint32
	for _, p := range s.Topo.Pools {
		all = append(all, p.IPs()...)
	}
	sort.Slice(all, func(i, j int) bool { return all[i] < all[j] })
	k := 1 + rng.Intn(3)
	used := map[uint32]bool{}
	var lists [][]string
	for i := 0; i < k; i++ {
		var l []string
		nr := 1 + rng.Intn(2)
		for j := 0; j < nr; j++ {
			lo := all[rng.Intn(len(all))]
			hi := lo + uint32(rng.Intn(3))
			ok := true
			for u := lo; u <= hi; u++ {
				if used[u] {
					ok = false
				}
			}
			if !ok {
				continue
			}
			for u := lo; u <= hi; u++ {
				used[u] = true
			}
			if lo == hi {
				l = append(l, model.IPStr(lo))
			} else {
				l = append(l, model.IPStr(lo)+"~"+model.IPStr(hi))
			}
		}
		if len(l) > 0 {
			lists = append(lists, l)
		}
	}
	if len(lists) == 0 {
		return ""
	}
	b, _ := json.Marshal(lists)
	return string(b)
}

func (s *Sim) applyWorkload(wl *Workload) {
	r := int32(wl.Replicas)
	if !wl.Exists {
		r = -1
	}
	switch wl.Kind {
	case KSts:
		s.W.SetStatefulSet(NS, wl.Name, r)
	case KDp:
		s.W.SetDeployment(NS, wl.Name, r)
	case KTApp:
		s.W.SetTApp(NS, wl.Name, int64(r))
		s.tappBarrier(wl)
	}
}

// podKey is the documented allocation key of a pod of wl.
func (s *Sim) podKey(wl *Workload, podName string) string {
	return model.PodKey(wl.Pool, wl.Kind.keyType(), NS, wl.appName(), podName)
}

func (s *Sim) prefixKey(wl *Workload) string {
	return model.PrefixKey(wl.Pool, wl.Kind.keyType(), NS, wl.appName())
}

func (s *Sim) annotations(wl *Workload) map[string]string {
	a := map[string]string{}
	if wl.Policy != "" {
		a[constant.ReleasePolicyAnnotation] = wl.Policy
	}
	if wl.Pool != "" {
		a[constant.IPPoolAnnotation] = wl.Pool
	}
	if wl.Ranges != "" {
		a[constant.ExtendedCNIArgsAnnotation] = `{"request_ip_range":` + wl.Ranges + `}`
	}
	return a
}

func (s *Sim) owner(wl *Workload) *metav1.OwnerReference {
	switch wl.Kind {
	case KSts:
		return &metav1.OwnerReference{Kind: "StatefulSet", Name: wl.Name}
	case KDp:
		return &metav1.OwnerReference{Kind: "ReplicaSet", Name: fmt.Sprintf("%s-rs%d", wl.Name, wl.RS)}
	case KTApp:
		return &metav1.OwnerReference{Kind: world.TAppKind, Name: wl.Name, APIVersion: world.TAppGroup + "/v1alpha1"}
	}
	return nil
}

// podsOf lists the pods of wl that exist in truth.
func (s *Sim) podsOf(wl *Workload) []*corev1.Pod {
	var out []*corev1.Pod
	for _, p := range s.W.ListPods() {
		if r, ok := s.Pods[string(p.UID)]; ok && r.WL == wl {
			out = append(out, p)
		}
	}
	return out
}

func (s *Sim) rec(p *corev1.Pod) *PodRec { return s.Pods[string(p.UID)] }

// ---------- steps ----------

// stepCreate creates a missing pod of a workload. Returns false if nothing to create.
func (s *Sim) stepCreate(wl *Workload) bool {
	if !wl.Exists && wl.Kind != KBare {
		return false
	}
	existing := map[string]bool{}
	live := 0
	for _, p := range s.podsOf(wl) {
		existing[p.Name] = true
		if world.Live(p) {
			live++
		}
	}
	var name string
	idx := -1
	switch wl.Kind {
	case KSts, KTApp:
		for i := 0; i < wl.Replicas; i++ {
			n := fmt.Sprintf("%s-%d", wl.Name, i)
			if !existing[n] {
				name, idx = n, i
				break
			}
		}
	case KDp:
		if live < wl.Replicas+1 { // surge 1
			wl.podSeq++
			name = fmt.Sprintf("%s-rs%d-p%d", wl.Name, wl.RS, wl.podSeq)
		}
	case KBare:
		if !existing[wl.Name] {
			name = wl.Name
		}
	}
	if name == "" {
		return false
	}
	uid := s.W.NewUID()
	pod := world.NewPod(NS, name, uid, s.owner(wl), s.annotations(wl))
	if err := s.W.CreatePod(pod); err != nil {
		return false
	}
	s.Pods[uid] = &PodRec{Name: name, UID: uid, WL: wl, Index: idx}
	s.record("create", name+"/"+uid, "ok")
	return true
}

func (s *Sim) nodes() []corev1.Node {
	var out []corev1.Node
	for _, n := range s.Topo.Nodes {
		node := corev1.Node{ObjectMeta: metav1.ObjectMeta{Name: n.Name}}
		if n.IP != "" {
			node.Status.Addresses = []corev1.NodeAddress{{Type: corev1.NodeInternalIP, Address: n.IP}}
		}
		out = append(out, node)
	}
	return out
}

// unboundPods lists existing, live, unbound pods.
func (s *Sim) unboundPods() []*corev1.Pod {
	var out []*corev1.Pod
	for _, p := range s.W.ListPods() {
		if p.Spec.NodeName == "" && world.Live(p) && s.rec(p) != nil {
			out = append(out, p)
		}
	}
	return out
}

// stepFilter runs the scheduler's filter call for a pod.
func (s *Sim) stepFilter(p *corev1.Pod) ([]string, error) {
	r := s.rec(p)
	dump := s.W.Dump()
	key := s.podKey(r.WL, p.Name)
	r.heldAtFilter, r.reservedAtFilter = nil, nil
	for ip, e := range dump {
		if e.Key == key {
			r.heldAtFilter = append(r.heldAtFilter, ip)
		}
		if r.WL.Kind == KDp && e.Key == s.prefixKey(r.WL) {
			r.reservedAtFilter = append(r.reservedAtFilter, ip)
		}
	}
	sort.Strings(r.heldAtFilter)
	sort.Strings(r.reservedAtFilter)
	r.UsedAtFilter = 0
	if r.WL.Kind == KDp {
		appPods := model.PodKey(r.WL.Pool, "dp", NS, r.WL.Name, "")
		for _, e := range dump {
			if strings.HasPrefix(e.Key, appPods) && e.Key != s.prefixKey(r.WL) {
				r.UsedAtFilter++
			}
		}
	}
	nodes, _, err := s.W.Plugin.Filter(p, s.nodes())
	r.Offered = nil
	for _, n := range nodes {
		r.Offered = append(r.Offered, n.Name)
	}
	r.FilterOK = err == nil && len(nodes) > 0
	r.FilterConfGen = s.confGen
	r.PoolSizeAtFilter = -1
	if r.WL.Pool != "" {
		if sz, ok := s.W.PoolSizeTruth(r.WL.Pool); ok {
			r.PoolSizeAtFilter = sz
		}
		if o, ok, _ := s.W.PoolIdx.GetByKey("kube-system/" + r.WL.Pool); ok {
			if sz := o.(*galaxyv1alpha1.Pool).Size; sz > r.PoolSizeAtFilter {
				r.PoolSizeAtFilter = sz
			}
		}
	}
	res := errStr(err)
	if err == nil {
		res = "nodes=" + strings.Join(r.Offered, ",")
	}
	s.lastOpErr = err
	s.record("filter", p.Name+"/"+string(p.UID), res)
	return r.Offered, err
}

// stepBind runs the scheduler's bind call for a pod on a node.
func (s *Sim) stepBind(p *corev1.Pod, node string) error {
	r := s.rec(p)
	r.ProvAtBind = s.W.Provider != nil
	s.lastBindPod = string(p.UID)
	err := s.W.Plugin.Bind(&schedulerapi.ExtenderBindingArgs{PodName: p.Name, PodNamespace: p.Namespace, PodUID: p.UID, Node: node})
	s.W.DrainReleaseChan()
	s.lastOpErr = err
	s.record("bind", p.Name+"/"+string(p.UID)+"@"+node, errStr(err))
	return err
}

func (s *Sim) stepRun(p *corev1.Pod) {
	s.W.UpdatePod(p.Namespace, p.Name, func(q *corev1.Pod) { q.Status.Phase = corev1.PodRunning })
	s.record("run", p.Name+"/"+string(p.UID), "ok")
}

func (s *Sim) stepFinish(p *corev1.Pod) {
	ph := corev1.PodSucceeded
	if s.rng.Intn(2) == 0 {
		ph = corev1.PodFailed
	}
	s.W.UpdatePod(p.Namespace, p.Name, func(q *corev1.Pod) { q.Status.Phase = ph })
	s.record("finish", p.Name+"/"+string(p.UID), string(ph))
}

func (s *Sim) stepDelete(p *corev1.Pod) {
	s.W.DeletePod(p.Namespace, p.Name)
	s.record("delete", p.Name+"/"+string(p.UID), "ok")
}

func (s *Sim) stepDeliver(res string, drop bool) bool {
	e, ok := s.W.Deliver(res, drop)
	if !ok {
		return false
	}
	name := ""
	if e.New != nil {
		name = objName(e.New)
	} else if e.Old != nil {
		name = objName(e.Old)
	}
	op := "deliver"
	if drop {
		op = "drop-event"
	}
	s.record(op, res+":"+e.Kind.String()+":"+name, "ok")
	return true
}

func objName(o interface{}) string {
	if m, ok := o.(metav1.Object); ok {
		return m.GetName() + "/" + string(m.GetUID())
	}
	return "?"
}

func (s *Sim) stepRelease(idx int) bool {
	if len(s.W.Releases) == 0 {
		return false
	}
	if idx < 0 {
		idx = s.rng.Intn(len(s.W.Releases))
	}
	ev := s.W.Releases[idx]
	err, _ := s.W.HandleRelease(idx)
	s.lastOpErr = err
	s.record("unbind", ev.Pod.Name+"/"+string(ev.Pod.UID)+" retry="+strconv.Itoa(ev.Retry), errStr(err))
	return true
}

func (s *Sim) stepResync() {
	err := s.W.Plugin.VerifResyncOnce()
	s.lastOpErr = err
	s.record("resync", "", errStr(err))
}

func (s *Sim) stepSyncPodIPs() {
	s.W.Plugin.VerifSyncPodIPs()
	s.lastOpErr = nil
	s.record("sync-pod-ips", "", "ok")
}

func (s *Sim) stepScale(wl *Workload, r int) {
	wl.Replicas = r
	s.applyWorkload(wl)
	s.record("scale", wl.Name, strconv.Itoa(r))
}

func (s *Sim) stepDeleteWorkload(wl *Workload) {
	wl.Exists = false
	s.applyWorkload(wl)
	s.record("delete-app", wl.Name, "ok")
}

func (s *Sim) stepRecreateWorkload(wl *Workload) {
	wl.Exists = true
	if wl.Kind == KDp {
		wl.RS++
	}
	s.applyWorkload(wl)
	s.record("create-app", wl.Name, strconv.Itoa(wl.Replicas))
}

func (s *Sim) stepRollingUpdate(wl *Workload) {
	wl.RS++
	s.record("rolling-update", wl.Name, strconv.Itoa(wl.RS))
}

// tappBarrier waits (logical barrier) until the plugin's dynamic informer view of a TApp equals truth.
func (s *Sim) tappBarrier(wl *Workload) {
	// implemented in monitors.go (needs util.KeyObj)
	tappBarrier(s, wl)
}

// stepRestart restarts the plugin cleanly (between operations).
func (s *Sim) stepRestart() error {
	err := s.W.Restart()
	s.mountAPI() // the API controller holds the plugin's IPAM instance
	s.record("restart", "", errStr(err))
	return err
}

// stepReload switches the configuration and reloads through the real updateConfigMap.
func (s *Sim) stepReload(t *model.Topo) error {
	text := model.ConfText(t.Pools)
	s.W.SetConfigMap(text)
	s.pendingReload = t
	updated, err := s.W.Plugin.VerifReloadConfigMap()
	s.pendingReload = nil
	s.lastOpErr = err
	if err == nil && updated {
		s.adoptConfig(t)
	} else {
		// failed reload: configuration in force is unchanged; keep the ConfigMap consistent with it
		s.W.SetConfigMap(s.W.ConfText)
	}
	s.record("reload", fmt.Sprintf("%d pools", len(t.Pools)), errStr(err))
	if err != nil && s.faultMode == world.None && !s.compound {
		// every configuration the harness writes is valid by its model and no call was failed: a reload that is refused
		// leaves the old configuration in force, i.e. removed addresses stay allocatable and nothing is dropped
		s.alarm("C09", "valid-configuration-refused-by-reload", fmt.Sprintf("fault-free reload of a valid configuration failed: %v; configuration text: %s", err, text))
	}
	return err
}

// stepReloadRetry is the plugin's periodic loop calling updateConfigMap again after a reload that failed: the
// administrator's ConfigMap still holds the new text. A fault-free call that returns without error means the ConfigMap's
// content is the configuration in force from now on (whatever the call reports about having "updated" anything).
func (s *Sim) stepReloadRetry(t *model.Topo) error {
	text := model.ConfText(t.Pools)
	s.W.SetConfigMap(text)
	s.pendingReload = t
	updated, err := s.W.Plugin.VerifReloadConfigMap()
	s.pendingReload = nil
	s.lastOpErr = err
	if err == nil {
		if text != s.W.ConfText {
			s.adoptConfig(t)
		}
		if !updated {
			s.Counts["reload_retry_reported_unchanged"]++
		}
	} else {
		s.W.SetConfigMap(s.W.ConfText)
	}
	s.record("reload", fmt.Sprintf("retry after failure, %d pools", len(t.Pools)), errStr(err))
	return err
}

// adoptConfig makes t the configuration in force in the harness's books.
func (s *Sim) adoptConfig(t *model.Topo) {
	oldIPs := s.Topo.AllIPs()
	newIPs := t.AllIPs()
	for ip := range oldIPs {
		if _, ok := newIPs[ip]; !ok {
			s.reloadDropped[ip] = true
		}
	}
	s.confGen++
	s.Topo = &model.Topo{Pools: t.Pools, Nodes: s.Topo.Nodes}
	s.W.ConfText = model.ConfText(t.Pools)
}

// mutateTopo derives a new configuration: grow, shrink, move a range to another pool, change node subnets.
func (s *Sim) mutateTopo() *model.Topo {
	return model.MutateTopo(s.rng, s.Topo)
}

// ---------- HTTP API steps ----------

func (s *Sim) httpDo(method, path string, body interface{}) (int, []byte) {
	var rd *bytes.Reader
	if body != nil {
		b, _ := json.Marshal(body)
		rd = bytes.NewReader(b)
	} else {
		rd = bytes.NewReader(nil)
	}
	req := httptest.NewRequest(method, path, rd)
	req.Header.Set("Content-Type", "application/json")
	req.Header.Set("Accept", "application/json")
	rw := httptest.NewRecorder()
	s.api.ServeHTTP(rw, req)
	return rw.Code, rw.Body.Bytes()
}

// stepAPIRelease lists IPs over HTTP and posts one entry back (releasable or not, chosen at random).
func (s *Sim) stepAPIRelease(target string) {
	code, body := s.httpDo("GET", "/v1/ip?size=9999", nil)
	var lr api.ListIPResp
	_ = json.Unmarshal(body, &lr)
	var cands []api.FloatingIP
	for _, f := range lr.Content {
		if f.PodName != "" || f.AppName != "" || f.PoolName != "" {
			cands = append(cands, f)
		}
	}
	if code != 200 || len(cands) == 0 {
		s.record("api-release", "", fmt.Sprintf("list code=%d none", code))
		return
	}
	f := cands[s.rng.Intn(len(cands))]
	if target != "" {
		found := false
		for _, c := range cands {
			if c.IP == target {
				f, found = c, true
			}
		}
		if !found {
			s.record("api-release", target, "not listed")
			return
		}
	}
	code2, body2 := s.httpDo("POST", "/v1/ip", api.ReleaseIPReq{IPs: []api.FloatingIP{f}})
	var rr api.ReleaseIPResp
	_ = json.Unmarshal(body2, &rr)
	if code2 == 200 && len(rr.Unreleased) == 0 {
		s.released200[f.IP] = true
		s.everReleased200[f.IP] = true
	}
	s.lastOpErr = nil
	s.record("api-release", fmt.Sprintf("%s pod=%s app=%s type=%s pool=%s releasable=%v", f.IP, f.PodName, f.AppName,
		f.AppType, f.PoolName, f.Releasable), fmt.Sprintf("code=%d unreleased=%v", code2, rr.Unreleased))
}

// stepPoolSet creates/updates a pool over HTTP.
func (s *Sim) stepPoolSet(name string, size int, prealloc bool) {
	code, _ := s.httpDo("POST", "/v1/pool", api.Pool{Name: name, Size: size, PreAllocateIP: prealloc})
	if code == 200 || code == 202 {
		s.poolSizes[name] = size
	}
	s.W.SyncPoolsFromTruth()
	s.record("pool-set", fmt.Sprintf("%s size=%d prealloc=%v", name, size, prealloc), fmt.Sprintf("code=%d", code))
}

func (s *Sim) stepReserve() bool {
	dump := s.W.Dump()
	store := s.W.Store()
	var free []string
	for ip, e := range dump {
		if _, inStore := store[ip]; e.Key == "" && !inStore {
			free = append(free, ip)
		}
	}
	if len(free) == 0 {
		return false
	}
	sort.Strings(free)
	ip := free[s.rng.Intn(len(free))]
	err := s.W.ReserveFIP(ip, "admin-reserved")
	if err == nil {
		s.adminReserved[ip] = true
	}
	s.record("reserve", ip, errStr(err))
	return true
}

func (s *Sim) stepUnreserve() bool {
	store := s.W.Store()
	var res []string
	for ip, e := range store {
		if e.Reserved {
			res = append(res, ip)
		}
	}
	if len(res) == 0 {
		return false
	}
	sort.Strings(res)
	ip := res[s.rng.Intn(len(res))]
	delete(s.adminReserved, ip)
	err := s.W.UnreserveFIP(ip)
	s.record("unreserve", ip, errStr(err))
	return true
}
