package main

import (
	"fmt"
	"math/rand"
	"os"
	"runtime"
	"runtime/debug"
	"sort"
	"strconv"
	"strings"
	"sync"
	"sync/atomic"
	"time"

	corev1 "k8s.io/api/core/v1"

	"verif/harness/model"
	"verif/harness/world"
)

// Op is one replayable operation, addressed by identifiers so that it can be executed on a clone.
type Op struct {
	Kind string // create filter bind run finish delete deliver drop release resync syncips scale delapp mkapp rolling
	// restart reload apirelease poolset reserve unreserve
	WL   int    // workload index
	Pod  string // pod uid
	Node string
	Res  string // event resource
	Idx  int    // release index / replicas / pool size
	Str  string // pool name
	Flag bool
	Topo *model.Topo
}

func (o Op) String() string {
	return fmt.Sprintf("%s wl=%d pod=%s node=%s res=%s idx=%d %s", o.Kind, o.WL, o.Pod, o.Node, o.Res, o.Idx, o.Str)
}

func (s *Sim) podByUID(uid string) *corev1.Pod {
	r, ok := s.Pods[uid]
	if !ok {
		return nil
	}
	p := s.W.GetPod(NS, r.Name)
	if p == nil || string(p.UID) != uid {
		return nil
	}
	return p
}

// exec executes one op with an injection plan; returns crashed=true if an injected crash stopped it.
func (s *Sim) exec(o Op, plan map[int]world.InjectKind, provFail map[int]bool) (crashed bool) {
	if s.ownAlarms() > 0 {
		return false // the history already refuted the property in focus: later alarms would only be consequences
	}
	s.faultMode = world.None
	for _, k := range plan {
		s.faultMode = k
	}
	s.provFault = len(provFail) > 0
	if s.provFault {
		s.faultMode = world.FailAt
	}
	if !s.compound {
		s.W.BeginOp(plan, provFail)
		s.W.In.KeepLog = true
	}
	defer func() {
		if r := recover(); r != nil {
			if c, ok := r.(world.Crash); ok {
				crashed = true
				s.record("CRASH", o.Kind, c.At.String())
				return
			}
			s.record("PANIC", o.Kind, fmt.Sprint(r))
			s.alarm("C05", "panic-in-"+o.Kind, fmt.Sprintf("operation %s panicked: %v\n%s", o, r, string(debug.Stack())))
		}
	}()
	switch o.Kind {
	case "create":
		if !s.stepCreate(s.WLs[o.WL]) {
			return
		}
	case "filter":
		p := s.podByUID(o.Pod)
		if p == nil || p.Spec.NodeName != "" {
			return
		}
		_, err := s.stepFilter(p)
		if s.compound {
			return
		}
		s.frozenSinceFilter = true
		s.lastFilterPod = o.Pod
		s.checkFilter(p, err)
		s.afterStep()
		s.frozenSinceFilter = true
		return
	case "bind":
		p := s.podByUID(o.Pod)
		if p == nil || p.Spec.NodeName != "" {
			return
		}
		pre := s.W.Dump()
		preStore := s.W.Store()
		nb := len(s.W.Bindings())
		frozen := s.frozenSinceFilter && s.lastFilterPod == o.Pod
		err := s.stepBind(p, o.Node)
		if s.compound {
			return
		}
		s.frozenSinceFilter = frozen
		s.checkBind(p, o.Node, err, pre, preStore, nb)
	case "run":
		if p := s.podByUID(o.Pod); p != nil && p.Spec.NodeName != "" && p.Status.Phase == corev1.PodPending {
			s.stepRun(p)
		} else {
			return
		}
	case "finish":
		if p := s.podByUID(o.Pod); p != nil && world.Live(p) {
			s.stepFinish(p)
		} else {
			return
		}
	case "delete":
		if p := s.podByUID(o.Pod); p != nil {
			s.stepDelete(p)
		} else {
			return
		}
	case "deliver":
		if !s.stepDeliver(o.Res, false) {
			return
		}
	case "drop":
		if !s.stepDeliver(o.Res, true) {
			return
		}
	case "release":
		if !s.stepRelease(o.Idx) {
			return
		}
	case "resync":
		s.stepResync()
	case "syncips":
		s.stepSyncPodIPs()
	case "scale":
		s.stepScale(s.WLs[o.WL], o.Idx)
		s.noteReplicas(s.WLs[o.WL])
	case "delapp":
		s.stepDeleteWorkload(s.WLs[o.WL])
		s.noteReplicas(s.WLs[o.WL])
	case "mkapp":
		s.stepRecreateWorkload(s.WLs[o.WL])
	case "rolling":
		s.stepRollingUpdate(s.WLs[o.WL])
	case "restart":
		_ = s.stepRestart()
	case "reload":
		_ = s.stepReload(o.Topo)
	case "reload-retry":
		_ = s.stepReloadRetry(o.Topo)
	case "apirelease":
		s.stepAPIRelease(o.Str)
	case "poolset":
		s.poolEver[o.Str] = true
		s.stepPoolSet(o.Str, o.Idx, o.Flag)
	case "reserve":
		if !s.stepReserve() {
			return
		}
	case "unreserve":
		if !s.stepUnreserve() {
			return
		}
	case "quiesce":
		s.quiesce()
		return
	}
	if s.compound {
		return
	}
	s.frozenSinceFilter = false
	s.afterStep()
	return
}

func goid() int64 {
	var buf [64]byte
	n := runtime.Stack(buf[:], false)
	// "goroutine 123 ["
	f := strings.Fields(string(buf[:n]))
	if len(f) < 2 {
		return -1
	}
	id, _ := strconv.ParseInt(f[1], 10, 64)
	return id
}

// runInterleaved executes operation a, pauses it at its k-th API-server call (right before the call, or right after
// it was applied), runs up to nb other operations while a is paused, resumes a, and evaluates the state-invariant
// monitors once everything has returned. An operation that blocks on a lock the paused one holds is given 30 ms;
// then the paused operation is resumed and the blocked one finishes afterwards (the schedule a real mutex gives).
func (s *Sim) runInterleaved(a Op, k int, after bool, nb int) {
	cnt := 0
	pause := func(c world.Call, aft bool) bool {
		if aft != after {
			return false
		}
		cnt++
		return cnt == k
	}
	i := 0
	next := func() (Op, bool) {
		for i < nb {
			i++
			var b Op
			if c, ok := s.controllerOp(); ok && s.rng.Intn(3) == 0 {
				b = c
			} else {
				b = s.nextOp()
			}
			if b.Kind == "restart" || b.Kind == "quiesce" || (b.Kind == "reload" && a.Kind == "reload") {
				continue // two overlapping reloads leave "the configuration in force" ambiguous for the harness
			}
			if (b.Kind == "filter" || b.Kind == "bind") && (a.Kind == "filter" || a.Kind == "bind") && b.Pod == a.Pod {
				continue // one scheduler: a pod is never filtered/bound twice at the same time
			}
			return b, true
		}
		return Op{}, false
	}
	s.runPaused(a, pause, next)
}

// runPaused is the general form: pause decides at which of a's API calls to stop it, next yields the operations to
// run meanwhile.
func (s *Sim) runPaused(a Op, pause func(c world.Call, after bool) bool, next func() (Op, bool)) {
	if s.ownAlarms() > 0 {
		return
	}
	s.compound = true
	s.faultTag = "interleaved-" + a.Kind
	defer func() {
		s.compound = false
		s.faultTag = ""
		s.W.In.Yield = nil
		s.W.In.IPAMYield = nil
		s.pauseIPAM = nil
	}()
	paused, resume, doneA := make(chan struct{}), make(chan struct{}), make(chan struct{})
	var once sync.Once
	var aGo int64
	s.W.In.Yield = func(c world.Call, aft bool) {
		if pause == nil || goid() != atomic.LoadInt64(&aGo) {
			return
		}
		if pause(c, aft) {
			once.Do(func() { close(paused); <-resume })
		}
	}
	if pi := s.pauseIPAM; pi != nil {
		// pause between two IPAM calls of the operation (no API-server call in between)
		s.W.In.IPAMYield = func(method string, aft bool) {
			if goid() != atomic.LoadInt64(&aGo) {
				return
			}
			if pi(method, aft) {
				once.Do(func() { close(paused); <-resume })
			}
		}
	}
	s.W.BeginOp(nil, nil)
	go func() {
		defer close(doneA)
		atomic.StoreInt64(&aGo, goid())
		s.exec(a, nil, nil)
	}()
	reached := false
	select {
	case <-paused:
		reached = true
	case <-doneA:
	}
	resumed := false
	if reached {
		s.Counts["interleave_pause_reached"]++
		for {
			b, ok := next()
			if !ok {
				break
			}
			doneB := make(chan struct{})
			go func() { defer close(doneB); s.exec(b, nil, nil) }()
			select {
			case <-doneB:
			case <-time.After(30 * time.Millisecond):
				s.Counts["interleave_other_op_blocked_on_paused_op"]++
				if !resumed {
					close(resume)
					resumed = true
				}
				select {
				case <-doneB:
				case <-time.After(180 * time.Second): // watchdog only
					s.Inconclusive = append(s.Inconclusive, "interleaved operation did not return (possible deadlock): "+b.String()+" during "+a.String())
					return
				}
			}
			s.Counts["interleave_ops_run_during_pause"]++
		}
	}
	if !resumed {
		close(resume)
	}
	select {
	case <-doneA:
	case <-time.After(180 * time.Second): // watchdog only
		s.Inconclusive = append(s.Inconclusive, "paused operation did not return after resume: "+a.String())
		return
	}
	s.afterCompound()
}

// interleaveTemplate runs one of the seeded two-operation overlaps on this (cloned) simulation:
// 0: an API release of the reserved IP of a deleted pod identity is paused right after it learned from the API server
//
//	that the pod does not exist; meanwhile the same-named pod is re-created, filtered and bound; then the release resumes.
//
// 1: a resync pass is paused at its first API-server call; meanwhile a bound pod is deleted, its event handled, the
//
//	same-named pod re-created, filtered and bound; then the pass resumes.
func (s *Sim) interleaveTemplate(kind int) {
	var wl *Workload
	var wi int
	for i, w := range s.WLs {
		if (w.Kind == KSts || w.Kind == KBare || w.Kind == KTApp) && w.Exists {
			if kind == 0 && w.effPolicy() == 0 {
				continue
			}
			wl, wi = w, i
			break
		}
	}
	if wl == nil {
		return
	}
	do := func(o Op) { s.exec(o, nil, nil) }
	deliverAll := func() {
		for _, r := range []string{"sts", "dp", "pools", "pods"} {
			for s.W.Pending(r) > 0 && s.ownAlarms() == 0 {
				do(Op{Kind: "deliver", Res: r})
			}
		}
	}
	first := func() *corev1.Pod {
		ps := s.podsOf(wl)
		if len(ps) == 0 {
			return nil
		}
		return ps[0]
	}
	for _, p := range s.podsOf(wl) { // start from a clean slate for this identity
		do(Op{Kind: "delete", Pod: string(p.UID)})
	}
	deliverAll()
	for len(s.W.Releases) > 0 && s.ownAlarms() == 0 {
		do(Op{Kind: "release", Idx: 0})
	}
	do(Op{Kind: "create", WL: wi})
	deliverAll()
	a := first()
	if a == nil {
		return
	}
	do(Op{Kind: "filter", Pod: string(a.UID)})
	r := s.Pods[string(a.UID)]
	if r == nil || len(r.Offered) == 0 {
		return
	}
	do(Op{Kind: "bind", Pod: string(a.UID), Node: r.Offered[0]})
	b, ok := s.told()[string(a.UID)]
	if !ok || len(b.IPs) == 0 {
		return
	}
	deliverAll()
	// the operations that run while the other one is paused: re-create the identity and schedule it
	stage := 0
	var npod string
	recreate := func(withDelete bool) func() (Op, bool) {
		return func() (Op, bool) {
			for {
				stage++
				switch stage {
				case 1:
					if withDelete {
						return Op{Kind: "delete", Pod: string(a.UID)}, true
					}
				case 2, 3:
					if withDelete && s.W.Pending("pods") > 0 {
						return Op{Kind: "deliver", Res: "pods"}, true
					}
				case 4:
					if withDelete && len(s.W.Releases) > 0 {
						return Op{Kind: "release", Idx: 0}, true
					}
				case 5:
					return Op{Kind: "create", WL: wi}, true
				case 6, 7:
					if s.W.Pending("pods") > 0 {
						return Op{Kind: "deliver", Res: "pods"}, true
					}
				case 8:
					if p := first(); p != nil && string(p.UID) != string(a.UID) {
						npod = string(p.UID)
						return Op{Kind: "filter", Pod: npod}, true
					}
					return Op{}, false
				case 9:
					if r := s.Pods[npod]; r != nil && len(r.Offered) > 0 {
						return Op{Kind: "bind", Pod: npod, Node: r.Offered[s.rng.Intn(len(r.Offered))]}, true
					}
					return Op{}, false
				default:
					return Op{}, false
				}
			}
		}
	}
	switch kind {
	case 0:
		do(Op{Kind: "delete", Pod: string(a.UID)})
		deliverAll()
		for len(s.W.Releases) > 0 && s.ownAlarms() == 0 {
			do(Op{Kind: "release", Idx: 0})
		}
		s.Counts["interleave_template_release_vs_rebind"]++
		s.runPaused(Op{Kind: "apirelease", Str: b.IPs[0]},
			func(c world.Call, after bool) bool { return after && c.Verb == "get" && c.Resource == "pods" }, recreate(false))
	case 1:
		s.Counts["interleave_template_resync_vs_recreate"]++
		s.runPaused(Op{Kind: "resync"},
			func(c world.Call, after bool) bool { return !after && c.Verb == "get" && c.Resource == "pods" }, recreate(true))
	}
	if s.ownAlarms() == 0 {
		deliverAll()
		for len(s.W.Releases) > 0 && s.ownAlarms() == 0 {
			do(Op{Kind: "release", Idx: 0})
		}
		do(Op{Kind: "resync"})
	}
}

// interleaveDpUnbinds is the third seeded overlap: an immutable deployment holding 3 IPs is scaled to 2 and two of its
// pods vanish; the unbind of the first is paused right after it has counted the app's IPs (IPAM call ByPrefix), the
// unbind of the second runs meanwhile, then the first resumes. Only one of the two IPs may be released.
func (s *Sim) interleaveDpUnbinds() {
	var wl *Workload
	var wi int
	for i, w := range s.WLs {
		if w.Kind == KDp && w.Exists && w.Pool == "" && w.effPolicy() == 1 && len(rangeLists(w.Ranges)) == 0 {
			wl, wi = w, i
			break
		}
	}
	if wl == nil {
		return
	}
	do := func(o Op) { s.exec(o, nil, nil) }
	deliverAll := func() {
		for _, r := range []string{"sts", "dp", "pools", "pods"} {
			for s.W.Pending(r) > 0 && s.ownAlarms() == 0 {
				do(Op{Kind: "deliver", Res: r})
			}
		}
	}
	drain := func() {
		deliverAll()
		for len(s.W.Releases) > 0 && s.ownAlarms() == 0 {
			do(Op{Kind: "release", Idx: 0})
		}
	}
	drain()
	do(Op{Kind: "scale", WL: wi, Idx: 3})
	deliverAll()
	bound := func() []*corev1.Pod {
		var out []*corev1.Pod
		for _, p := range s.podsOf(wl) {
			if world.Live(p) && p.Spec.NodeName != "" {
				if b, ok := s.told()[string(p.UID)]; ok && len(b.IPs) > 0 {
					out = append(out, p)
				}
			}
		}
		return out
	}
	for guard := 0; guard < 8 && len(bound()) < 3 && s.ownAlarms() == 0; guard++ {
		for _, p := range s.podsOf(wl) {
			if world.Live(p) && p.Spec.NodeName == "" {
				do(Op{Kind: "filter", Pod: string(p.UID)})
				if r := s.Pods[string(p.UID)]; r != nil && r.FilterOK && len(r.Offered) > 0 {
					do(Op{Kind: "bind", Pod: string(p.UID), Node: r.Offered[0]})
				}
			}
		}
		if len(bound()) < 3 {
			do(Op{Kind: "create", WL: wi})
			deliverAll()
		}
	}
	bs := bound()
	if len(bs) < 3 || s.ownAlarms() > 0 {
		return
	}
	drain()
	do(Op{Kind: "scale", WL: wi, Idx: 2})
	deliverAll()
	do(Op{Kind: "delete", Pod: string(bs[0].UID)})
	do(Op{Kind: "delete", Pod: string(bs[1].UID)})
	deliverAll()
	if len(s.W.Releases) < 2 || s.ownAlarms() > 0 {
		return
	}
	s.Counts["interleave_template_two_unbinds_of_scaled_down_deployment"]++
	ran := false
	s.pauseIPAM = func(method string, after bool) bool { return after && method == "ByPrefix" }
	s.runPaused(Op{Kind: "release", Idx: 0}, nil,
		func() (Op, bool) {
			if ran || len(s.W.Releases) == 0 {
				return Op{}, false
			}
			ran = true
			return Op{Kind: "release", Idx: 0}, true
		})
	if os.Getenv("VERIF_DEBUG_TPL") != "" {
		for _, st := range s.Steps[len(s.Steps)-12:] {
			fmt.Fprintf(os.Stderr, "TPL %+v\n", st)
		}
		for ip, e := range s.W.Dump() {
			if e.Key != "" {
				fmt.Fprintf(os.Stderr, "TPL dump %s %q pol=%d\n", ip, e.Key, e.Policy)
			}
		}
		fmt.Fprintf(os.Stderr, "TPL alarms %v\n", s.Alarms)
	}
	if s.ownAlarms() == 0 {
		drain()
		do(Op{Kind: "resync"})
	}
}

// interleaveFilterReload is the fourth seeded overlap (C06): a filter is suspended right after it asked the IPAM for a
// node's subnet (IPAM call NodeSubnet, which feeds the plugin's node-subnet cache); a configuration reload with changed
// node subnets runs meanwhile (it resets that cache); the filter resumes. Afterwards fresh pods are filtered: what they
// are offered must match the configuration now in force.
func (s *Sim) interleaveFilterReload() {
	do := func(o Op) { s.exec(o, nil, nil) }
	deliverAll := func() {
		for _, r := range []string{"sts", "dp", "pools", "pods", "fips"} {
			for s.W.Pending(r) > 0 && s.ownAlarms() == 0 {
				do(Op{Kind: "deliver", Res: r})
			}
		}
	}
	// the cache is filled per node: start from an empty one (a reload with the same content resets it)
	do(Op{Kind: "restart"})
	var wi = -1
	for i, w := range s.WLs {
		if w.Exists && w.effPolicy() == 0 && w.Ranges == "" && w.Pool == "" {
			wi = i
			break
		}
	}
	if wi < 0 {
		return
	}
	do(Op{Kind: "create", WL: wi})
	deliverAll()
	ps := s.unboundPods()
	if len(ps) == 0 || s.ownAlarms() > 0 {
		return
	}
	p := ps[len(ps)-1]
	s.Counts["interleave_template_filter_vs_reload"]++
	ran := false
	s.pauseIPAM = func(method string, after bool) bool { return after && method == "NodeSubnet" }
	s.runPaused(Op{Kind: "filter", Pod: string(p.UID)}, nil, func() (Op, bool) {
		if ran {
			return Op{}, false
		}
		ran = true
		return Op{Kind: "reload", Topo: splitNodeSubnets(s.Topo)}, true
	})
	// fresh pods of every default-policy workload are filtered against the configuration now in force
	for round := 0; round < 2 && s.ownAlarms() == 0; round++ {
		for i, w := range s.WLs {
			if !w.Exists || w.effPolicy() != 0 || w.Ranges != "" || w.Pool != "" {
				continue
			}
			do(Op{Kind: "create", WL: i})
		}
		deliverAll()
		for _, q := range s.unboundPods() {
			if s.ownAlarms() > 0 {
				break
			}
			do(Op{Kind: "filter", Pod: string(q.UID)})
		}
	}
}

// splitNodeSubnets returns the same pools with every node subnet of at most 30 bits replaced by its two halves: every
// node keeps being served by the same pools, but the subnet the IPAM reports for a node changes.
func splitNodeSubnets(t *model.Topo) *model.Topo {
	nt := &model.Topo{Nodes: t.Nodes}
	for _, p := range t.Pools {
		q := p
		q.Ranges = append([][2]uint32(nil), p.Ranges...)
		q.NodeSubnets = nil
		for _, n := range p.NodeSubnets {
			if n.Bits > 30 {
				q.NodeSubnets = append(q.NodeSubnets, n)
				continue
			}
			half := uint32(1) << uint(32-n.Bits-1)
			q.NodeSubnets = append(q.NodeSubnets, model.Subnet{Base: n.Base, Bits: n.Bits + 1}, model.Subnet{Base: n.Base + half, Bits: n.Bits + 1})
		}
		nt.Pools = append(nt.Pools, q)
	}
	return nt
}

// afterCrash restarts the plugin after an injected crash and evaluates the crash monitors of C05.
func (s *Sim) afterCrash() {
	s.faultMode = world.None
	if s.pendingReload != nil {
		// the process died inside a reload: the ConfigMap already holds the new text, which is what the
		// restarted process reads
		s.adoptConfig(s.pendingReload)
		s.pendingReload = nil
	}
	s.W.BeginOp(nil, nil)
	if err := s.stepRestart(); err != nil {
		s.alarm("C05", "restart-failed-after-crash", err.Error())
		return
	}
	// what the binding log says is API truth; monitors continue from the restarted memory
	s.prevDump = s.W.Dump()
	s.afterStep()
	s.stepResync()
	s.afterStep()
	s.stepSyncPodIPs()
	s.afterStep()
	// no leak: every pod-keyed allocation belongs to an existing unfinished pod or is entitled by policy
	s.quiesce()
}

// Clone copies the whole simulation (world deep-copied, plugin rebuilt from the store).
func (s *Sim) Clone(rng *rand.Rand) (*Sim, error) {
	w, err := s.W.Clone()
	if err != nil {
		return nil, err
	}
	n := &Sim{W: w, Topo: s.Topo, rng: rng, Pods: map[string]*PodRec{}, caseID: s.caseID,
		allocStep: map[string]int{}, poolSizes: map[string]int{}, released200: map[string]bool{}, everReleased200: map[string]bool{},
		reloadDropped: map[string]bool{}}
	n.Counts = map[string]int{}
	n.adminReserved = map[string]bool{}
	for k, v := range s.adminReserved {
		n.adminReserved[k] = v
	}
	n.replHist = map[string][]int{}
	n.poolEver = map[string]bool{}
	n.prevPoolCnt, n.prevPoolBound, n.prevPoolHad = map[string]int{}, map[string]int{}, map[string]bool{}
	n.provState = map[string]string{}
	wlMap := map[*Workload]*Workload{}
	for _, wl := range s.WLs {
		c := *wl
		n.WLs = append(n.WLs, &c)
		wlMap[wl] = &c
	}
	for uid, r := range s.Pods {
		c := *r
		c.WL = wlMap[r.WL]
		c.Offered = append([]string(nil), r.Offered...)
		n.Pods[uid] = &c
	}
	n.Steps = append([]Step(nil), s.Steps...)
	n.stepN = s.stepN
	for k, v := range s.poolSizes {
		n.poolSizes[k] = v
	}
	for k, v := range s.reloadDropped {
		n.reloadDropped[k] = v
	}
	for k, v := range s.everReleased200 {
		n.everReleased200[k] = v
	}
	for k, v := range s.replHist {
		n.replHist[k] = append([]int(nil), v...)
	}
	for k, v := range s.poolEver {
		n.poolEver[k] = v
	}
	for k, v := range s.prevPoolCnt {
		n.prevPoolCnt[k] = v
	}
	for k, v := range s.prevPoolBound {
		n.prevPoolBound[k] = v
	}
	for k, v := range s.prevPoolHad {
		n.prevPoolHad[k] = v
	}
	for k, v := range s.provState {
		n.provState[k] = v
	}
	n.provSeen = s.provSeen
	n.confGen = s.confGen
	n.bindSeen = s.bindSeen
	n.frozenSinceFilter = s.frozenSinceFilter
	n.lastFilterPod = s.lastFilterPod
	n.mountAPI()
	n.prevDump = n.W.Dump()
	return n, nil
}

// compareWithClone is M-restart: a plugin rebuilt from the store must hold exactly the running plugin's table.
func (s *Sim) compareWithClone(c *Sim) {
	a, b := s.W.Dump(), c.W.Dump()
	pa, pd := s.W.PendingFIPEvents()
	for ip, ea := range a {
		if pa[ip] || pd[ip] {
			continue
		}
		eb, ok := b[ip]
		if !ok || ea.Key != eb.Key || ea.Policy != eb.Policy || ea.NodeName != eb.NodeName || ea.PodUid != eb.PodUid || ea.Reserved != eb.Reserved {
			s.alarm("C05", "restart-reconstructs-different-state", fmt.Sprintf("%s: running %+v, rebuilt from store %+v", ip, ea, eb))
		}
	}
	for ip := range b {
		if _, ok := a[ip]; !ok {
			s.alarm("C05", "restart-reconstructs-different-state", fmt.Sprintf("%s only known to the rebuilt plugin", ip))
		}
	}
	s.Counts["restart_comparisons"]++
}

// nextOp picks the next random op of a history.
func (s *Sim) nextOp() Op {
	rng := s.rng
	// property focus: make the operations the property is about more frequent
	switch focus {
	case "C07":
		if rng.Intn(12) == 0 {
			pn := []string{"pa", "pb"}[rng.Intn(2)]
			return Op{Kind: "poolset", Str: pn, Idx: rng.Intn(4), Flag: rng.Intn(3) == 0}
		}
	case "C09":
		switch rng.Intn(16) {
		case 0:
			return Op{Kind: "reload", Topo: s.mutateTopo()}
		case 1:
			return Op{Kind: "reserve"}
		case 2:
			return Op{Kind: "unreserve"}
		}
	}
	for tries := 0; tries < 50; tries++ {
		x := rng.Intn(100)
		switch {
		case x < 12: // create
			wl := rng.Intn(len(s.WLs))
			return Op{Kind: "create", WL: wl}
		case x < 26: // filter
			ps := s.unboundPods()
			if len(ps) == 0 {
				continue
			}
			return Op{Kind: "filter", Pod: string(ps[rng.Intn(len(ps))].UID)}
		case x < 42: // bind
			var cands []*corev1.Pod
			for _, p := range s.unboundPods() {
				if r := s.rec(p); r != nil && len(r.Offered) > 0 {
					cands = append(cands, p)
				}
			}
			if len(cands) == 0 {
				continue
			}
			p := cands[rng.Intn(len(cands))]
			r := s.rec(p)
			return Op{Kind: "bind", Pod: string(p.UID), Node: r.Offered[rng.Intn(len(r.Offered))]}
		case x < 47: // run
			for _, p := range s.W.ListPods() {
				if p.Spec.NodeName != "" && p.Status.Phase == corev1.PodPending && rng.Intn(2) == 0 {
					return Op{Kind: "run", Pod: string(p.UID)}
				}
			}
		case x < 51: // finish
			ps := s.W.ListPods()
			if len(ps) == 0 {
				continue
			}
			p := ps[rng.Intn(len(ps))]
			if world.Live(p) && p.Spec.NodeName != "" {
				return Op{Kind: "finish", Pod: string(p.UID)}
			}
		case x < 59: // delete
			ps := s.W.ListPods()
			if len(ps) == 0 {
				continue
			}
			return Op{Kind: "delete", Pod: string(ps[rng.Intn(len(ps))].UID)}
		case x < 74: // deliver
			var rs []string
			for _, r := range []string{"pods", "pods", "pods", "sts", "dp", "pools", "fips"} {
				if s.W.Pending(r) > 0 {
					rs = append(rs, r)
				}
			}
			if len(rs) == 0 {
				continue
			}
			return Op{Kind: "deliver", Res: rs[rng.Intn(len(rs))]}
		case x < 75: // lost event
			if s.W.Pending("pods") > 0 {
				return Op{Kind: "drop", Res: "pods"}
			}
		case x < 83: // handle a release event
			if len(s.W.Releases) > 0 {
				return Op{Kind: "release", Idx: rng.Intn(len(s.W.Releases))}
			}
		case x < 86:
			return Op{Kind: "resync"}
		case x < 88:
			return Op{Kind: "syncips"}
		case x < 91: // scale
			wl := rng.Intn(len(s.WLs))
			if s.WLs[wl].Kind == KBare || !s.WLs[wl].Exists {
				continue
			}
			return Op{Kind: "scale", WL: wl, Idx: rng.Intn(4)}
		case x < 92:
			wl := rng.Intn(len(s.WLs))
			if s.WLs[wl].Kind == KBare {
				continue
			}
			if s.WLs[wl].Exists {
				return Op{Kind: "delapp", WL: wl}
			}
			return Op{Kind: "mkapp", WL: wl}
		case x < 93:
			wl := rng.Intn(len(s.WLs))
			if s.WLs[wl].Kind == KDp && s.WLs[wl].Exists {
				return Op{Kind: "rolling", WL: wl}
			}
		case x < 95:
			return Op{Kind: "apirelease"}
		case x < 96:
			return Op{Kind: "reload", Topo: s.mutateTopo()}
		case x < 97:
			return Op{Kind: "restart"}
		case x < 98:
			pn := []string{"pa", "pb"}[rng.Intn(2)]
			return Op{Kind: "poolset", Str: pn, Idx: rng.Intn(4), Flag: rng.Intn(3) == 0}
		case x < 99:
			return Op{Kind: "reserve"}
		default:
			return Op{Kind: "unreserve"}
		}
	}
	return Op{Kind: "resync"}
}

// controller emulation: delete pods that the workload controllers would delete (scale-down, deleted app,
// old replica set) — returns an op or false.
func (s *Sim) controllerOp() (Op, bool) {
	for _, wl := range s.WLs {
		pods := s.podsOf(wl)
		sort.Slice(pods, func(i, j int) bool { return pods[i].Name > pods[j].Name })
		live := 0
		for _, p := range pods {
			if world.Live(p) {
				live++
			}
		}
		for _, p := range pods {
			r := s.rec(p)
			switch wl.Kind {
			case KSts, KTApp:
				if !wl.Exists || r.Index >= wl.Replicas {
					return Op{Kind: "delete", Pod: string(p.UID)}, true
				}
			case KDp:
				if !wl.Exists || (live > wl.Replicas && world.Live(p)) || (!strings.Contains(p.Name, fmt.Sprintf("-rs%d-", wl.RS)) && live > wl.Replicas) {
					return Op{Kind: "delete", Pod: string(p.UID)}, true
				}
			}
		}
	}
	return Op{}, false
}
