package main

import (
	"encoding/json"
	"fmt"
	"sort"
	"strings"
	"sync/atomic"
	"time"

	appsv1 "k8s.io/api/apps/v1"
	corev1 "k8s.io/api/core/v1"
	"tkestack.io/galaxy/pkg/api/galaxy/constant"
	galaxyv1alpha1 "tkestack.io/galaxy/pkg/ipam/apis/galaxy/v1alpha1"
	"tkestack.io/galaxy/pkg/ipam/schedulerplugin/util"

	"verif/harness/model"
	"verif/harness/world"
)

// Alarm is a violation raised by a monitor, tagged with the property whose statement it refutes.
type Alarm struct {
	Prop string
	Sig  string
	Msg  string
}

// ownAlarms counts the alarms raised for the property this run decides (focus).
func (s *Sim) ownAlarms() int {
	n := 0
	for _, a := range s.Alarms {
		if a.Prop == focus || focus == "" {
			n++
		}
	}
	return n
}

func (s *Sim) alarm(prop, clause, msg string) {
	if prop != focus && focus != "" {
		// alarms of other properties are counted (they are decided by their own runs), at most a few are kept
		s.Counts["alarms_other_"+prop]++
		if len(s.Alarms) > 20 {
			return
		}
	}
	op := "init"
	inj := ""
	if n := len(s.Steps); n > 0 {
		op = s.Steps[n-1].Op
	}
	if s.faultMode != world.None {
		inj = ":" + s.faultMode.String()
	}
	if s.faultTag != "" {
		op = s.faultTag
	}
	sig := fmt.Sprintf("%s:%s%s", clause, op, inj)
	s.Alarms = append(s.Alarms, Alarm{Prop: prop, Sig: sig, Msg: msg})
}

var tappInformerStuck int32

func tappBarrier(s *Sim, wl *Workload) {
	if s.W.Plugin == nil || !s.W.WithTApp {
		return
	}
	ko := util.NewKeyObj("tapp_", NS, wl.Name, wl.Name+"-0", "")
	wait := 180 * time.Second // watchdog only: a real informer goroutine has to be scheduled, which can take long on a loaded machine
	if atomic.LoadInt32(&tappInformerStuck) != 0 {
		wait = 2 * time.Second // it already failed to follow once in this process: the run is inconclusive anyway
	}
	deadline := time.Now().Add(wait)
	for {
		exist, rep, err := s.W.Plugin.VerifAppReplicas(ko)
		if err == nil && exist == wl.Exists && (!wl.Exists || int(rep) == wl.Replicas) {
			return
		}
		if time.Now().After(deadline) {
			atomic.StoreInt32(&tappInformerStuck, 1)
			s.Inconclusive = append(s.Inconclusive, "tapp informer barrier timed out (the plugin's dynamic informer view of the TApp does not follow API truth)")
			return
		}
		time.Sleep(2 * time.Millisecond)
	}
}

// told returns uid -> last successful binding.
func (s *Sim) told() map[string]world.Binding {
	m := map[string]world.Binding{}
	for _, b := range s.W.Bindings() {
		m[b.UID] = b
	}
	return m
}

type view struct {
	dump  map[string]world.DumpEntry
	dups  []string
	store map[string]world.StoreEntry
	pods  []*corev1.Pod
	told  map[string]world.Binding
}

func (s *Sim) observe() *view {
	v := &view{}
	v.dump, v.dups = s.W.DumpWithDups()
	v.store = s.W.Store()
	v.pods = s.W.ListPods()
	v.told = s.told()
	return v
}

// listerReplicas returns (exists, replicas) of a workload as the plugin's informer cache sees it.
func (s *Sim) listerReplicas(wl *Workload) (bool, int) {
	switch wl.Kind {
	case KSts:
		o, ok, _ := s.W.StsIdx.GetByKey(NS + "/" + wl.Name)
		if !ok {
			return false, 0
		}
		r := o.(*appsv1.StatefulSet).Spec.Replicas
		if r == nil {
			return true, 1
		}
		return true, int(*r)
	case KDp:
		o, ok, _ := s.W.DpIdx.GetByKey(NS + "/" + wl.Name)
		if !ok {
			return false, 0
		}
		r := o.(*appsv1.Deployment).Spec.Replicas
		if r == nil {
			return true, 1
		}
		return true, int(*r)
	}
	return wl.Exists, wl.Replicas
}

func (s *Sim) wlByKey(k model.Key) *Workload {
	for _, wl := range s.WLs {
		if wl.Kind.keyType() == k.Type && wl.appName() == k.App && wl.Pool == k.Pool {
			if wl.Kind == KBare && wl.Name != k.Pod {
				continue
			}
			return wl
		}
	}
	return nil
}

func podIndexOf(name string) int {
	i := strings.LastIndex(name, "-")
	if i < 0 {
		return -1
	}
	n := 0
	if i+1 >= len(name) {
		return -1
	}
	for _, c := range name[i+1:] {
		if c < '0' || c > '9' {
			return -1
		}
		n = n*10 + int(c-'0')
	}
	return n
}

// afterStep evaluates every per-step monitor on the observable state.
func (s *Sim) afterStep() {
	v := s.observe()
	op := ""
	if n := len(s.Steps); n > 0 {
		op = s.Steps[n-1].Op
	}
	lostReply := s.faultMode == world.FailAfter
	configured := s.Topo.AllIPs()

	// ---- M-own: C01 / C04 ----
	for _, ip := range v.dups {
		s.alarm("C01", "ip-in-both-tables", fmt.Sprintf("IPAM lists %s twice (allocated and unallocated)", ip))
	}
	liveOwner := map[string]string{}
	for _, p := range v.pods {
		if !world.Live(p) {
			continue
		}
		b, ok := v.told[string(p.UID)]
		if !ok {
			continue
		}
		r := s.rec(p)
		if r == nil {
			continue
		}
		key := s.podKey(r.WL, p.Name)
		for _, ip := range b.IPs {
			if other, dup := liveOwner[ip]; dup && other != string(p.UID) {
				s.alarm("C01", "two-live-pods-told-same-ip", fmt.Sprintf("live pods %s and %s were both bound with %s", other, p.UID, ip))
			}
			liveOwner[ip] = string(p.UID)
			if r.Exempt {
				continue
			}
			e, in := v.dump[ip]
			if !in {
				if s.reloadDropped[ip] {
					r.Exempt = true
					continue
				}
				s.alarm("C04", "live-pod-ip-vanished", fmt.Sprintf("live pod %s/%s bound with %s: IP no longer known to IPAM", p.Name, p.UID, ip))
				continue
			}
			if e.Key != key {
				what := "live-pod-ip-rekeyed"
				if e.Key == "" {
					what = "live-pod-ip-freed"
				}
				s.alarm("C04", what, fmt.Sprintf("live pod %s/%s (key %s) was bound with %s, but IPAM owner of that IP is now %q",
					p.Name, p.UID, key, ip, e.Key))
				if e.Key != "" {
					s.alarm("C01", "ip-of-live-pod-owned-by-other-key", fmt.Sprintf("%s told to live pod %s/%s is keyed %q", ip, p.Name, p.UID, e.Key))
				}
			}
		}
	}

	// ---- C09 (a): reserved / de-configured IPs never allocated ----
	if op == "filter" || op == "bind" {
		if a, _ := s.W.PendingFIPEvents(); len(a) > 0 {
			s.Counts["reserved_event_pending_at_allocation"]++
		}
	}
	if op == "reload" {
		for ip, e := range s.prevDump {
			if e.Key != "" && s.reloadDropped[ip] {
				if _, still := v.dump[ip]; !still {
					s.Counts["reload_dropped_allocated_ip"]++
				}
			}
		}
	}
	for ip, e := range v.dump {
		if e.Key == "" || e.Reserved {
			continue
		}
		if st, ok := v.store[ip]; ok && st.Reserved && !lostReply {
			s.alarm("C09", "admin-reserved-ip-allocated", fmt.Sprintf("%s carries the reserved label in the store but IPAM allocated it to %q", ip, e.Key))
		}
		if _, ok := configured[ip]; !ok {
			s.alarm("C09", "deconfigured-ip-allocated", fmt.Sprintf("%s is not in the configuration in force but is allocated to %q", ip, e.Key))
		}
	}
	for ip := range s.adminReserved {
		if s.reloadDropped[ip] {
			delete(s.adminReserved, ip)
			continue
		}
		if st, ok := v.store[ip]; (!ok || !st.Reserved) && !lostReply {
			s.alarm("C09", "admin-reservation-object-lost", fmt.Sprintf("the administrator's reserved FloatingIP object of %s is gone from the store (now: present=%v key=%q) although nobody unreserved it", ip, ok, st.Key))
			delete(s.adminReserved, ip)
		}
		if e, ok := v.dump[ip]; ok && e.Key != "" && !e.Reserved && !lostReply {
			s.alarm("C09", "admin-reserved-ip-allocated", fmt.Sprintf("%s is reserved by the administrator but IPAM allocated it to %q", ip, e.Key))
		}
	}
	for _, p := range v.pods {
		if b, ok := v.told[string(p.UID)]; ok && b.Seq > s.bindSeen {
			for _, ip := range b.IPs {
				if _, ok := configured[ip]; !ok && !s.reloadDropped[ip] {
					s.alarm("C09", "binding-names-unconfigured-ip", fmt.Sprintf("binding of %s names %s which is not configured", p.Name, ip))
				}
				if st, ok := v.store[ip]; ok && st.Reserved {
					s.alarm("C09", "binding-names-reserved-ip", fmt.Sprintf("binding of %s names admin-reserved %s", p.Name, ip))
				}
			}
		}
	}
	s.bindSeen = len(s.W.Bindings())

	// ---- M-sync: C05 ----
	pendAdd, pendDel := s.W.PendingFIPEvents()
	for ip := range configured {
		e, in := v.dump[ip]
		if !in {
			s.alarm("C05", "configured-ip-missing-from-memory", fmt.Sprintf("configured IP %s is in neither table", ip))
			continue
		}
		st, inStore := v.store[ip]
		var bad string
		switch {
		case e.Key != "" && e.Reserved:
			if !inStore && !pendDel[ip] {
				bad = fmt.Sprintf("memory holds reserved %s (key %q) but the store has no object", ip, e.Key)
			}
		case e.Key != "":
			if !inStore {
				bad = fmt.Sprintf("memory: %s -> %q, store: no object", ip, e.Key)
			} else if st.Key != e.Key || st.Policy != e.Policy || st.NodeName != e.NodeName || st.PodUid != e.PodUid {
				bad = fmt.Sprintf("memory: %s -> key %q policy %d node %q uid %q; store: key %q policy %d node %q uid %q", ip,
					e.Key, e.Policy, e.NodeName, e.PodUid, st.Key, st.Policy, st.NodeName, st.PodUid)
			}
		default:
			if inStore && !(st.Reserved && pendAdd[ip]) {
				bad = fmt.Sprintf("memory: %s free, store: object with key %q (reserved=%v)", ip, st.Key, st.Reserved)
			}
		}
		if bad != "" {
			if lostReply {
				s.LostReplyDisagreements++
			} else {
				s.alarm("C05", "memory-store-disagree", bad)
			}
		}
	}

	if s.compoundCheck {
		// only state invariants are meaningful after an interleaved execution
		s.checkProviderInvariants(v)
		s.checkDpAggregate(v)
		s.prevDump = v.dump
		s.prevPoolCnt = map[string]int{}
		for k := range s.released200 {
			delete(s.released200, k)
		}
		s.Counts["interleaved_executions_checked"]++
		return
	}
	// ---- M-keep: C03 "kept until", C09 reload, C01 moved ----
	s.checkDpAggregate(v)
	s.checkKeep(v, op)

	// ---- M-pool: C07 ----
	s.checkPools(v)

	// ---- M-provider: C10 ----
	s.checkProvider(v)

	s.prevDump = v.dump
	for k := range s.released200 {
		delete(s.released200, k)
	}
	s.Counts["steps_"+op]++
}

func (s *Sim) livePodByName(v *view, name string) *corev1.Pod {
	for _, p := range v.pods {
		if p.Name == name && world.Live(p) {
			return p
		}
	}
	return nil
}

// checkDpAggregate: an immutable deployment (no pool) may only lose as many IPs in one step - which may contain several
// overlapping unbinds - as it held above the smallest replica count anything in the step can have seen. Works on the
// state before and after the step only, so it is also valid after interleaved executions.
func (s *Sim) checkDpAggregate(v *view) {
	for _, wl := range s.WLs {
		if wl.Kind != KDp || wl.Pool != "" || wl.effPolicy() != 1 || !wl.Exists {
			continue
		}
		lex, lrep := s.listerReplicas(wl)
		if !lex {
			continue
		}
		minr := wl.Replicas
		if lrep < minr {
			minr = lrep
		}
		if m := s.minReplicasRecent(wl); m < minr {
			minr = m
		}
		if minr <= 0 {
			continue
		}
		pre := s.prefixKey(wl)
		cnt := 0
		var freed []string
		for ip, e := range s.prevDump {
			if !strings.HasPrefix(e.Key, pre) {
				continue
			}
			cnt++
			cur, in := v.dump[ip]
			if in && cur.Key == "" && !s.released200[ip] && !s.reloadDropped[ip] {
				freed = append(freed, ip)
			}
		}
		room := cnt - minr
		if room < 0 {
			room = 0
		}
		if len(freed) > room {
			sort.Strings(freed)
			s.alarm("C03", "immutable-deployment-released-below-replicas", fmt.Sprintf(
				"deployment %s held %d IP(s) with replicas >= %d, yet %d were released in one step (%v): it is left with fewer IPs than replicas",
				wl.Name, cnt, minr, len(freed), freed))
		}
	}
}

func (s *Sim) checkKeep(v *view, op string) {
	lostReply := s.faultMode == world.FailAfter
	defer func() {
		// replica values older than this step can no longer have been read by anything judged later: what the
		// lister still holds is looked up when needed
		for name, h := range s.replHist {
			if len(h) > 1 {
				s.replHist[name] = h[len(h)-1:]
			}
		}
	}()
	for ip, prev := range s.prevDump {
		if prev.Key == "" || prev.Reserved {
			continue
		}
		cur, in := v.dump[ip]
		if in && cur.Key == prev.Key {
			continue
		}
		if !in {
			if !s.reloadDropped[ip] {
				s.alarm("C09", "allocation-vanished", fmt.Sprintf("%s (key %q) disappeared from IPAM without being de-configured", ip, prev.Key))
			}
			continue
		}
		if lostReply {
			continue // memory may legitimately lag the store after a lost reply; C05 observations count it
		}
		pk, ok := model.ParseKey(prev.Key)
		if !ok {
			continue
		}
		if op == "reload" || op == "restart" {
			s.alarm("C09", "reload-changed-allocation", fmt.Sprintf("%s changed from %q to %q across a %s that still configures it", ip, prev.Key, cur.Key, op))
			continue
		}
		if s.released200[ip] {
			continue // administrator release; C04 (M-own) judges whether the pod was live
		}
		wl := s.wlByKey(pk)
		// the release policy in force for the IP is the one its owner's workload declares (every pod of a workload
		// carries the same policy annotation); what IPAM has stored is the thing under test, not the reference
		pol := prev.Policy
		if wl != nil && wl.Kind != KBare {
			if mp := wl.effPolicy(); mp != pol {
				s.Counts["keep_stored_policy_differs_from_declared"]++
				pol = mp
			}
		}
		if cur.Key != "" {
			// re-keyed
			ck, _ := model.ParseKey(cur.Key)
			sameApp := false
			if pk.Pool != "" || ck.Pool != "" {
				sameApp = pk.Pool == ck.Pool // a named pool owns its IPs across deployments
			} else {
				sameApp = ck.Type == pk.Type && ck.App == pk.App && ck.NS == pk.NS
			}
			if !sameApp {
				s.alarm("C01", "ip-moved-between-owners", fmt.Sprintf("%s moved from %q to %q without being released", ip, prev.Key, cur.Key))
			} else if wl != nil && !pk.IsPrefix() && ck.IsPrefix() {
				if wl.Kind != KDp {
					// only deployment pods hand their IP to the app/pool reserve; every other identity keeps it under its own key
					s.alarm("C02", "non-deployment-pod-ip-moved-to-pool-reserve:"+wl.Kind.String(), fmt.Sprintf(
						"%s of %s pod key %q was re-keyed to the reserve %q: the identity lost its IP", ip, wl.Kind, prev.Key, cur.Key))
				} else if wl.Pool == "" && pol == 1 {
					// several unbinds of the app may share one step (a resync pass): what counts is what the app still
					// holds after the releases of this step
					cnt := 0
					pre := s.prefixKey(wl)
					for pip, e := range s.prevDump {
						if strings.HasPrefix(e.Key, pre) {
							if c2, in2 := v.dump[pip]; in2 && c2.Key == "" {
								continue // released in this very step
							}
							cnt++
						}
					}
					if rmax := s.maxReplicasRecent(wl); cnt > rmax {
						s.alarm("C03", "deployment-ip-reserved-although-app-holds-more-than-replicas", fmt.Sprintf(
							"%s of vanished pod %q was kept in reserve although deployment %s held %d IPs with replicas <= %d", ip, prev.Key, wl.Name, cnt, rmax))
					}
				}
			}
			continue
		}
		// freed
		if pk.IsPrefix() {
			s.alarm("C03", "reserved-ip-freed-without-api:"+pk.Type, fmt.Sprintf("%s held in reserve under %q was freed without an API release", ip, prev.Key))
			continue
		}
		switch pol {
		case 0:
			// default: freed once the pod is gone/finished; a live told owner is judged by C04
		case 2:
			s.alarm("C03", "never-policy-ip-freed:"+pk.Type, fmt.Sprintf("%s (key %q, policy never) was freed without an API release", ip, prev.Key))
		case 1:
			if wl == nil {
				continue
			}
			lex, lrep := s.listerReplicas(wl)
			justified := false
			switch wl.Kind {
			case KSts, KTApp:
				idx := podIndexOf(pk.Pod)
				justified = !wl.Exists || !lex || wl.Replicas <= idx || lrep <= idx || s.minReplicasRecent(wl) <= idx
			case KDp:
				cnt := 0
				pre := s.prefixKey(wl)
				for _, e := range s.prevDump {
					if strings.HasPrefix(e.Key, pre) {
						cnt++
					}
				}
				minr := wl.Replicas
				if lrep < minr {
					minr = lrep
				}
				if m := s.minReplicasRecent(wl); m < minr {
					minr = m
				}
				justified = !wl.Exists || !lex || minr == 0 || cnt > minr
			default:
				justified = true
			}
			if !justified {
				s.alarm("C03", "immutable-ip-freed-early:"+wl.Kind.String(), fmt.Sprintf("%s (key %q, immutable) was freed although %s %s exists with replicas %d (lister %d)",
					ip, prev.Key, wl.Kind, wl.Name, wl.Replicas, lrep))
			}
		}
	}
}

// minReplicasRecent is the smallest replica count (or -1... 0 for deleted) truth had in the last few steps: a scale-down
// immediately followed by a scale-up legitimately releases.
func (s *Sim) minReplicasRecent(wl *Workload) int {
	m := wl.Replicas
	if h, ok := s.replHist[wl.Name]; ok {
		for _, r := range h {
			if r < m {
				m = r
			}
		}
	}
	return m
}

// maxReplicasRecent is the largest replica count the plugin may legitimately have seen: truth now, lister now, and
// every value truth had during the history (the lister can lag arbitrarily).
func (s *Sim) maxReplicasRecent(wl *Workload) int {
	m := 0
	if wl.Exists {
		m = wl.Replicas
	}
	if ex, lr := s.listerReplicas(wl); ex && lr > m {
		m = lr
	}
	for _, r := range s.replHist[wl.Name] {
		if r > m {
			m = r
		}
	}
	return m
}

func (s *Sim) noteReplicas(wl *Workload) {
	r := wl.Replicas
	if !wl.Exists {
		r = 0
	}
	s.replHist[wl.Name] = append(s.replHist[wl.Name], r)
}

func (s *Sim) checkPools(v *view) {
	for name := range s.poolEver {
		cnt := 0
		pre := "pool__" + name + "_"
		for _, e := range v.dump {
			if !strings.HasPrefix(e.Key, pre) {
				continue
			}
			k, ok := model.ParseKey(e.Key)
			if ok && (k.IsPrefix() || k.Type == "dp") {
				cnt++
			}
		}
		// size in force: the weakest reading = the largest size visible in API truth or the lister before or
		// after the step
		bound := -1
		truthSize, hasObj := s.W.PoolSizeTruth(name)
		if hasObj && truthSize > bound {
			bound = truthSize
		}
		if o, ok, _ := s.W.PoolIdx.GetByKey("kube-system/" + name); ok {
			if sz := o.(*galaxyv1alpha1.Pool).Size; sz > bound {
				bound = sz
			}
		}
		curBound := bound
		if pb, ok := s.prevPoolBound[name]; ok && pb > bound {
			bound = pb
		}
		prev := s.prevPoolCnt[name]
		if bound >= 0 && cnt > prev && cnt > bound && s.prevPoolHad[name] {
			clause := "sized-pool-grew-beyond-size"
			if op := s.lastOp(); op == "bind" && s.lastBindFilterPredatesSize(name, bound) {
				clause += ":filter-predates-size-in-force"
			} else if op == "bind" && s.lastBindHeldNothing(name) {
				// the IP the filter had allocated for the pod (inside the pool lock, counted) was taken away before the
				// bind (configuration reload dropped it, administrator released it): bind allocates a fresh one itself
				clause += ":filter-allocation-gone-before-bind"
			}
			s.alarm("C07", clause, fmt.Sprintf("pool %s holds %d IPs (was %d) with size %d in force", name, cnt, prev, bound))
		}
		if cnt > prev {
			s.Counts["pool_growths"]++
			if bound >= 0 && cnt == bound {
				s.Counts["pool_reached_size"]++
			}
		}
		s.prevPoolCnt[name] = cnt
		s.prevPoolBound[name] = curBound
		s.prevPoolHad[name] = hasObj
	}
}

// ---- M-provider ----

// afterCompound evaluates the state-invariant monitors after an interleaved execution.
func (s *Sim) afterCompound() {
	s.compound = false
	s.compoundCheck = true
	s.afterStep()
	s.compoundCheck = false
}

// checkProviderInvariants: call log through the state machine + "live bound pod's IPs are assigned to its node".
func (s *Sim) checkProviderInvariants(v *view) {
	if s.W.Provider == nil {
		return
	}
	// concurrent calls on one IP may be logged in either order: only the end-state invariant is judged
	calls := s.W.Provider.Snapshot()
	for _, c := range calls[s.provSeen:] {
		if !c.OK {
			continue
		}
		if c.Assign {
			s.provState[c.IP] = c.Node
		} else {
			delete(s.provState, c.IP)
		}
	}
	s.provSeen = len(calls)
	for _, p := range v.pods {
		if !world.Live(p) || p.Spec.NodeName == "" {
			continue
		}
		b, ok := v.told[string(p.UID)]
		r := s.rec(p)
		if !ok || r == nil || !r.ProvAtBind || r.Exempt {
			continue
		}
		for _, ip := range b.IPs {
			if n, ok := s.provState[ip]; !ok || n != p.Spec.NodeName {
				s.alarm("C10", "live-pod-ip-not-assigned-to-its-node", fmt.Sprintf("live pod %s on %s bound with %s, provider state: %q", p.Name, p.Spec.NodeName, ip, n))
			}
		}
	}
}

func (s *Sim) checkProvider(v *view) {
	if s.W.Provider == nil {
		return
	}
	calls := s.W.Provider.Snapshot()
	for _, c := range calls[s.provSeen:] {
		if !c.OK {
			s.Counts["provider_calls_failed"]++
			continue
		}
		if c.Assign {
			if cur, ok := s.provState[c.IP]; ok && cur != c.Node {
				clause := "assigned-to-second-node"
				if e, ok := v.dump[c.IP]; ok {
					if pk, ok := model.ParseKey(e.Key); ok {
						if wl := s.wlByKey(pk); wl != nil && len(rangeLists(wl.Ranges)) > 1 {
							clause += ":multi-ip-key" // an earlier resync/release of a sibling IP cleared this IP's node without unassigning it
						}
					}
				}
				s.alarm("C10", clause, fmt.Sprintf("provider AssignIP(%s,%s) while still assigned to %s", c.IP, c.Node, cur))
				s.Counts["provider_moves"]++
			}
			s.provState[c.IP] = c.Node
			s.Counts["provider_assign"]++
		} else {
			delete(s.provState, c.IP)
			s.Counts["provider_unassign"]++
		}
	}
	s.provSeen = len(calls)
	// every IP of a bound live pod is assigned to that pod's node
	for _, p := range v.pods {
		if !world.Live(p) || p.Spec.NodeName == "" {
			continue
		}
		b, ok := v.told[string(p.UID)]
		r := s.rec(p)
		if !ok || r == nil || !r.ProvAtBind || r.Exempt {
			continue
		}
		for _, ip := range b.IPs {
			if n, ok := s.provState[ip]; !ok || n != p.Spec.NodeName {
				s.alarm("C10", "live-pod-ip-not-assigned-to-its-node", fmt.Sprintf("live pod %s on %s bound with %s, provider state: %q", p.Name, p.Spec.NodeName, ip, n))
			}
		}
	}
	// an IP is unassigned before it is freed or handed to a different owner
	if s.faultMode == world.FailAfter {
		return
	}
	// the stored node of an IP is how unbind, release and resync know where to unassign it from: while the provider
	// has an IP assigned, the FloatingIP object must name that node
	for ip, n := range s.provState {
		if s.reloadDropped[ip] {
			continue
		}
		if st, ok := v.store[ip]; ok && st.Key != "" && st.NodeName != n {
			s.alarm("C10", "stored-node-differs-from-provider-assignment", fmt.Sprintf(
				"provider has %s assigned to %s but its FloatingIP object (key %q) names node %q: the next unassign goes to the wrong node", ip, n, st.Key, st.NodeName))
		}
	}
	for ip, prev := range s.prevDump {
		cur, in := v.dump[ip]
		if prev.Key == "" || (in && cur.Key == prev.Key) {
			continue
		}
		if s.reloadDropped[ip] {
			delete(s.provState, ip) // de-configured by the administrator: outside what C10 quantifies over
			continue
		}
		if n, assigned := s.provState[ip]; assigned {
			newKey := ""
			if in {
				newKey = cur.Key
			}
			pk, _ := model.ParseKey(prev.Key)
			ck, _ := model.ParseKey(newKey)
			if newKey != "" && ck.IsPrefix() && (ck.Pool == pk.Pool && ck.App == pk.App || ck.Pool != "" && ck.Pool == pk.Pool) {
				// pod -> its app's reserve: same owner (the app); bind of the next pod must still see it unassigned,
				// which the assign-to-second-node rule checks
				continue
			}
			clause := "owner-changed-while-assigned"
			if wl := s.wlByKey(pk); len(heldBy(s.prevDump, prev.Key)) > 1 || (wl != nil && len(rangeLists(wl.Ranges)) > 1) {
				clause += ":multi-ip-key" // the key holds (or was bound with) several IPs
			}
			s.alarm("C10", clause, fmt.Sprintf("%s went from %q to %q while the provider still has it assigned to %s", ip, prev.Key, newKey, n))
		}
	}
}

// ---- quiescent point: C03 "released when due" ----

// quiesce delivers every pending event, drains the release queue (each event retried to success or its 4th
// failure) and runs exactly one resync pass; then evaluates the release-policy reference model.
func (s *Sim) quiesce() {
	s.frozenSinceFilter = false // events are delivered and passes run: the world a filter saw is gone
	guard := 0
	for (s.W.PendingAll() > 0 || len(s.W.Releases) > 0) && guard < 2000 && s.ownAlarms() == 0 {
		guard++
		progressed := false
		for _, r := range []string{"sts", "dp", "pools", "fips", "pods"} {
			if s.W.Pending(r) > 0 {
				s.stepDeliver(r, false)
				s.afterStep()
				progressed = true
			}
		}
		if len(s.W.Releases) > 0 {
			s.stepRelease(0)
			s.afterStep()
			progressed = true
		}
		if !progressed {
			break
		}
	}
	if s.ownAlarms() > 0 {
		return
	}
	// one periodic round of the plugin's Run loop: a resync pass followed by the pod-IP sync pass
	s.stepResync()
	s.afterStep()
	if s.ownAlarms() > 0 {
		return
	}
	s.stepSyncPodIPs()
	s.afterStep()
	if s.ownAlarms() > 0 {
		return
	}
	s.checkQuiescent()
}

func (s *Sim) checkQuiescent() {
	// alarms of the quiescent point are named after the periodic round ("resync"), whatever its last pass was
	if s.faultTag == "" {
		s.faultTag = "resync"
		defer func() { s.faultTag = "" }()
	}
	v := s.observe()
	s.Counts["quiescent_checks"]++
	byApp := map[string]int{}
	for _, e := range v.dump {
		if e.Key == "" || e.Reserved {
			continue
		}
		k, ok := model.ParseKey(e.Key)
		if ok && k.Type == "dp" && k.Pool == "" {
			byApp[k.App]++
		}
	}
	for ip, e := range v.dump {
		if e.Key == "" || e.Reserved {
			continue
		}
		k, ok := model.ParseKey(e.Key)
		if !ok {
			s.alarm("C03", "unparseable-key-allocated", fmt.Sprintf("%s keyed %q", ip, e.Key))
			continue
		}
		wl := s.wlByKey(k)
		cls := fmt.Sprintf("%s/pol%d", k.Type, e.Policy)
		if k.IsPrefix() {
			if k.Pool != "" {
				s.Counts["q_kept_pool_reserve"]++
				continue // pool reserve: kept until API release
			}
			if e.Policy == 1 && wl != nil && (!wl.Exists || wl.Replicas == 0) {
				s.alarm("C03", "immutable-deployment-reserve-survives-app-deletion", fmt.Sprintf(
					"%s is still held under %q (immutable) although deployment %s is deleted or has 0 replicas", ip, e.Key, k.App))
			} else {
				s.Counts["q_kept_app_reserve"]++
			}
			continue
		}
		if p := s.livePodByName(v, k.Pod); p != nil {
			s.Counts["q_kept_live_pod"]++
			continue
		}
		// pod gone or finished
		switch e.Policy {
		case 0:
			s.alarm("C03", "default-policy-ip-not-released:"+k.Type, fmt.Sprintf("%s still assigned to %q (default policy) though the pod is gone or finished", ip, e.Key))
		case 2:
			s.Counts["q_kept_never"]++
		case 1:
			if wl == nil {
				continue
			}
			switch wl.Kind {
			case KSts, KTApp:
				idx := podIndexOf(k.Pod)
				if !wl.Exists || wl.Replicas <= idx {
					s.alarm("C03", "immutable-ip-not-released-after-scale-down-or-delete:"+wl.Kind.String(), fmt.Sprintf(
						"%s still assigned to %q (immutable): app exists=%v replicas=%d", ip, e.Key, wl.Exists, wl.Replicas))
				} else {
					s.Counts["q_kept_immutable"]++
				}
			case KDp:
				if k.Pool == "" {
					s.alarm("C03", "deployment-pod-key-without-pod", fmt.Sprintf("%s still keyed to vanished deployment pod %q", ip, e.Key))
				}
			}
		}
		_ = cls
	}
	// immutable deployments: holdings bounded by max(replicas, live pods)
	for _, wl := range s.WLs {
		if wl.Kind != KDp || wl.Pool != "" || wl.effPolicy() != 1 {
			continue
		}
		live := 0
		for _, p := range s.podsOf(wl) {
			if world.Live(p) {
				live++
			}
		}
		max := wl.Replicas
		if !wl.Exists {
			max = 0
		}
		if live > max {
			max = live
		}
		if !wl.Exists || wl.Replicas == 0 {
			continue // reported per IP above (reserve surviving app deletion / pod keys without pod)
		}
		if h := byApp[wl.Name]; h > max {
			s.alarm("C03", "immutable-deployment-holds-more-than-replicas", fmt.Sprintf("deployment %s holds %d IPs with replicas %d (exists=%v) and %d live pods",
				wl.Name, h, wl.Replicas, wl.Exists, live))
		}
	}
}

// ---- bind / filter monitors: C02, C06, C08 ----

type ipinfo struct {
	IP      string
	Bits    int
	Gateway string
	Vlan    uint16
}

func parseIPInfos(args string) []ipinfo {
	ca, err := constant.UnmarshalCniArgs(args)
	if err != nil || ca == nil {
		return nil
	}
	var out []ipinfo
	for _, i := range ca.Common.IPInfos {
		if i.IP == nil {
			continue
		}
		ones, _ := i.IP.Mask.Size()
		out = append(out, ipinfo{IP: i.IP.IP.String(), Bits: ones, Gateway: i.Gateway.String(), Vlan: i.Vlan})
	}
	return out
}

func rangeLists(ranges string) [][][2]uint32 {
	if ranges == "" {
		return nil
	}
	var raw [][]string
	if err := json.Unmarshal([]byte(ranges), &raw); err != nil {
		return nil
	}
	var out [][][2]uint32
	for _, l := range raw {
		var rl [][2]uint32
		for _, r := range l {
			if i := strings.Index(r, "~"); i >= 0 {
				rl = append(rl, [2]uint32{model.U32(r[:i]), model.U32(r[i+1:])})
			} else {
				rl = append(rl, [2]uint32{model.U32(r), model.U32(r)})
			}
		}
		out = append(out, rl)
	}
	return out
}

func inList(l [][2]uint32, ip string) bool {
	u := model.U32(ip)
	for _, r := range l {
		if u >= r[0] && u <= r[1] {
			return true
		}
	}
	return false
}

func heldBy(dump map[string]world.DumpEntry, key string) []string {
	var out []string
	for ip, e := range dump {
		if e.Key == key {
			out = append(out, ip)
		}
	}
	sort.Strings(out)
	return out
}

func intersects(a, b []string) bool {
	for _, x := range a {
		if contains(b, x) {
			return true
		}
	}
	return false
}

func contains(l []string, x string) bool {
	for _, y := range l {
		if y == x {
			return true
		}
	}
	return false
}

// checkFilter runs right after a filter step (before afterStep).
func (s *Sim) checkFilter(p *corev1.Pod, err error) {
	r := s.rec(p)
	wl := r.WL
	dump := s.W.Dump()
	key := s.podKey(wl, p.Name)
	held := heldBy(dump, key)
	clean := s.faultMode == world.None
	r.heldAfterFilter = append([]string(nil), held...)
	// whatever the fault mode: a filter that reported success and offered nodes while the app's reserve stayed untouched
	r.reserveNotHandedOver = nil
	if wl.Kind == KDp && wl.effPolicy() != 0 && len(r.heldAtFilter) == 0 && len(r.reservedAtFilter) > 0 && err == nil && r.FilterOK && len(held) == 0 {
		r.reserveNotHandedOver = append([]string(nil), r.reservedAtFilter...)
	}
	// C08: a filter that offers nothing must not leave new IPs behind for a multi-range pod
	if wl.Ranges != "" && !r.FilterOK && !equalStr(held, r.heldAtFilter) {
		s.alarm("C08", "filter-empty-left-ips", fmt.Sprintf("pod %s requested ranges %s; filter offered no node but key holds %v (before: %v)", p.Name, wl.Ranges, held, r.heldAtFilter))
	}
	// C02 (deployment / pool): a replacement pod takes an IP its app holds in reserve, not a fresh one
	if wl.Kind == KDp && wl.effPolicy() != 0 && len(r.heldAtFilter) == 0 && len(r.reservedAtFilter) > 0 && err == nil && clean {
		s.Counts["c02_dp_filter_with_reserve"]++
		for _, ip := range held {
			if !contains(r.reservedAtFilter, ip) {
				s.alarm("C02", "deployment-pod-took-fresh-ip-while-reserve-existed", fmt.Sprintf(
					"pod %s of %s: app held %v in reserve, but filter gave the pod fresh IP %s", p.Name, wl.Name, r.reservedAtFilter, ip))
			}
		}
		if r.FilterOK && len(held) == 0 {
			s.alarm("C02", "deployment-pod-offered-nodes-without-taking-reserve", fmt.Sprintf(
				"pod %s of %s: app held %v in reserve, filter offered %v but did not give the pod one of them", p.Name, wl.Name, r.reservedAtFilter, r.Offered))
		}
	}
	// C02 (deployment / pool, policy immutable or never): while the app's pods already hold as many IPs as it has
	// replicas, a replacement pod is made to wait for the old pod's IP instead of being given a fresh one
	if wl.Kind == KDp && wl.effPolicy() != 0 && len(r.heldAtFilter) == 0 && err == nil && clean && r.FilterOK && r.PoolSizeAtFilter < 0 {
		if rmax := s.maxReplicasRecent(wl); r.UsedAtFilter >= rmax {
			s.alarm("C02", "replacement-pod-not-made-to-wait-for-old-ip", fmt.Sprintf(
				"pod %s of deployment %s (replicas <= %d): the app's pods already held %d IPs, yet filter offered %v instead of waiting for an old pod's IP",
				p.Name, wl.Name, rmax, r.UsedAtFilter, r.Offered))
		}
		s.Counts["c02_dp_replacement_filters"]++
	}
	// C06: a pod that already holds an IP is only offered nodes from which that IP is routable
	if err == nil && len(held) > 0 {
		for _, n := range r.Offered {
			node := s.nodeByName(n)
			for _, ip := range held {
				if s.reloadDropped[ip] {
					continue
				}
				if !s.Topo.Routable(ip, node) {
					s.alarm("C06", "offered-node-cannot-route-held-ip", fmt.Sprintf("pod %s holds %s; filter offered %s (%s) from which it is not routable", p.Name, ip, n, node.IP))
				}
			}
		}
		s.Counts["c06_filters_with_held_ip"]++
	}
	// C06: a fresh default-policy pod without ranges is offered exactly the candidate nodes with a free routable IP
	if err == nil && clean && len(r.heldAtFilter) == 0 && len(held) == 0 && wl.effPolicy() == 0 && wl.Ranges == "" && s.W.Pending("fips") == 0 {
		want := s.expectedFreshNodes(dump)
		got := append([]string(nil), r.Offered...)
		sort.Strings(got)
		if !equalStr(want, got) {
			s.alarm("C06", "fresh-pod-offered-wrong-node-set", fmt.Sprintf("fresh default-policy pod %s: offered %v, nodes with a free routable IP %v", p.Name, got, want))
		}
		s.Counts["c06_fresh_filters"]++
		if len(got) > 0 && len(got) < len(s.Topo.Nodes) {
			s.Counts["c06_fresh_filters_strict_subset"]++
		}
	}
}

func (s *Sim) nodeByName(n string) model.Node {
	for _, x := range s.Topo.Nodes {
		if x.Name == n {
			return x
		}
	}
	return model.Node{}
}

func (s *Sim) expectedFreshNodes(dump map[string]world.DumpEntry) []string {
	freeSubnets := map[string]bool{}
	for ip, e := range dump {
		if e.Key != "" {
			continue
		}
		pi := s.Topo.PoolOf(ip)
		if pi < 0 {
			continue
		}
		for _, ns := range s.Topo.Pools[pi].NodeSubnets {
			freeSubnets[ns.String()] = true
		}
	}
	var want []string
	for _, n := range s.Topo.Nodes {
		if sn := s.Topo.NodeSubnetOf(n); sn != "" && freeSubnets[sn] {
			want = append(want, n.Name)
		}
	}
	sort.Strings(want)
	return want
}

func equalStr(a, b []string) bool {
	if len(a) != len(b) {
		return false
	}
	for i := range a {
		if a[i] != b[i] {
			return false
		}
	}
	return true
}

// checkBind runs right after a bind step. pre is the dump immediately before the bind call.
func (s *Sim) checkBind(p *corev1.Pod, node string, err error, pre map[string]world.DumpEntry, preStore map[string]world.StoreEntry, nBefore int) {
	r := s.rec(p)
	wl := r.WL
	key := s.podKey(wl, p.Name)
	heldPre := heldBy(pre, key)
	binds := s.W.Bindings()
	var b *world.Binding
	if len(binds) > nBefore {
		b = &binds[len(binds)-1]
	}
	lists := rangeLists(wl.Ranges)
	clean := s.faultMode == world.None
	if b != nil {
		s.Counts["bindings"]++
		infos := parseIPInfos(b.Args)
		nd := s.nodeByName(b.Node)
		// C06: routable + ipinfo from the pool's configuration
		for _, inf := range infos {
			pi := s.Topo.PoolOf(inf.IP)
			if pi < 0 {
				continue // C09 reports it
			}
			pool := s.Topo.Pools[pi]
			if r.FilterConfGen == s.confGen && contains(r.Offered, b.Node) && !s.Topo.Routable(inf.IP, nd) {
				s.alarm("C06", "bound-ip-not-routable-from-node", fmt.Sprintf("pod %s bound to %s (%s) with %s of pool %s serving %v", p.Name, b.Node, nd.IP, inf.IP, pool.Subnet, pool.NodeSubnets))
			}
			if inf.Bits != pool.Subnet.Bits || inf.Gateway != model.IPStr(pool.Gateway) || inf.Vlan != pool.Vlan {
				s.alarm("C06", "ipinfo-differs-from-pool-config", fmt.Sprintf("pod %s got %s/%d gw %s vlan %d; pool config says /%d gw %s vlan %d", p.Name,
					inf.IP, inf.Bits, inf.Gateway, inf.Vlan, pool.Subnet.Bits, model.IPStr(pool.Gateway), pool.Vlan))
			}
		}
		// C02 (deployment / pool): a replacement pod is bound with an IP its app holds in reserve, not a fresh one.
		// Filter normally hands the reserved IP to the pod; here the pod holds nothing at bind time although a reserve
		// routable from the chosen node exists
		if wl.Kind == KDp && wl.effPolicy() != 0 && len(lists) == 0 && len(heldPre) == 0 && clean && len(b.IPs) == 1 {
			var reserve []string
			for ip, e := range pre {
				if e.Key == s.prefixKey(wl) && !s.reloadDropped[ip] && s.Topo.Routable(ip, nd) {
					reserve = append(reserve, ip)
				}
			}
			sort.Strings(reserve)
			if len(reserve) > 0 && !contains(reserve, b.IPs[0]) {
				clause := "deployment-pod-bound-with-fresh-ip-while-reserve-existed"
				byAdmin := false
				for _, ip := range r.heldAfterFilter {
					if s.everReleased200[ip] || s.reloadDropped[ip] {
						byAdmin = true
					}
				}
				if byAdmin {
					// the administrator released / de-configured the IP filter had handed over: outside C02's quantifier
					s.Counts["c02_dp_bind_fresh_ip_after_administrator_took_the_filter_allocation"]++
				} else if len(r.heldAfterFilter) == 0 && intersects(r.reserveNotHandedOver, reserve) {
					// the reserve was there when the pod was filtered, the filter call (in which one API call failed) reported
					// success and offered nodes without handing it over, and the scheduler bound the pod
					s.alarm("C02", clause+":filter-swallowed-failed-hand-over", fmt.Sprintf("pod %s of %s: its last filter offered %v with no error although the hand-over of the reserve %v failed (injected API fault); bind gave it fresh IP %s while %v are still held in reserve under %q",
						p.Name, wl.Name, r.Offered, r.reserveNotHandedOver, b.IPs[0], reserve, s.prefixKey(wl)))
				} else if len(r.heldAfterFilter) == 0 {
					// the reserve appeared after the pod's filter (another pod of the app vanished meanwhile): the
					// property puts the hand-over into scheduling (filter), bind does not look at the reserve - counted only
					s.Counts["c02_dp_bind_fresh_ip_reserve_appeared_after_filter"]++
				} else {
					s.alarm("C02", clause, fmt.Sprintf("pod %s of %s held nothing at bind time and was bound with fresh IP %s while %v were held in reserve under %q (after its last filter it held %v)",
						p.Name, wl.Name, b.IPs[0], reserve, s.prefixKey(wl), r.heldAfterFilter))
				}
			}
			s.Counts["c02_dp_binds_without_held_ip"]++
		}
		// C02: stickiness
		if wl.effPolicy() != 0 && len(heldPre) > 0 {
			s.Counts["c02_rebinds_with_reservation_"+wl.Kind.String()]++
			if len(lists) == 0 {
				if len(b.IPs) != 1 || !contains(heldPre, b.IPs[0]) {
					s.alarm("C02", "rebound-with-different-ip:"+wl.Kind.String(), fmt.Sprintf("pod %s (key %s) held %v before bind but was bound with %v", p.Name, key, heldPre, b.IPs))
				}
			} else {
				for i, l := range lists {
					var hi []string
					for _, ip := range heldPre {
						if inList(l, ip) {
							hi = append(hi, ip)
						}
					}
					if len(hi) > 0 && (i >= len(b.IPs) || !contains(hi, b.IPs[i])) {
						s.alarm("C02", "rebound-with-different-ip-in-range:"+wl.Kind.String(), fmt.Sprintf("pod %s held %v in range #%d before bind but was bound with %v", p.Name, hi, i, b.IPs))
					}
				}
			}
		}
		// C08: k ranges -> k IPs, i-th in i-th range, distinct, routable, in order
		if len(lists) > 0 {
			s.Counts["c08_multi_binds_ok"]++
			seen := map[string]bool{}
			if len(b.IPs) != len(lists) {
				s.alarm("C08", "wrong-number-of-ips", fmt.Sprintf("pod %s requested %d ranges %s, bound with %v", p.Name, len(lists), wl.Ranges, b.IPs))
			}
			for i, ip := range b.IPs {
				if seen[ip] {
					s.alarm("C08", "duplicate-ip", fmt.Sprintf("pod %s bound with %v", p.Name, b.IPs))
				}
				seen[ip] = true
				if r.FilterConfGen == s.confGen && contains(r.Offered, b.Node) && !s.Topo.Routable(ip, nd) && !s.reloadDropped[ip] {
					s.alarm("C08", "ip-not-routable-from-bound-node", fmt.Sprintf("pod %s requested %s and was bound on %s (%s) with %s, which is not routable from there", p.Name, wl.Ranges, b.Node, nd.IP, ip))
				}
				if i < len(lists) && !inList(lists[i], ip) {
					s.alarm("C08", "ip-outside-its-range", fmt.Sprintf("pod %s: IP #%d %s is not in requested range #%d of %s", p.Name, i, ip, i, wl.Ranges))
				}
			}
		}
	} else if len(lists) > 0 && (clean || (s.faultMode == world.FailAt && s.injectedOnCreate())) && !s.provFault {
		// failed bind of a multi-range pod: nothing new may stay allocated
		s.Counts["c08_multi_binds_failed"]++
		post := s.W.Dump()
		heldPost := heldBy(post, key)
		if !equalStr(heldPre, heldPost) {
			s.alarm("C08", "failed-bind-left-ips-allocated", fmt.Sprintf("pod %s requested %s; bind failed (%v) but key holds %v (before: %v)", p.Name, wl.Ranges, err, heldPost, heldPre))
		}
		st := s.W.Store()
		for ip, e := range st {
			if e.Key == key && !contains(heldPre, ip) {
				s.alarm("C08", "failed-bind-left-store-objects", fmt.Sprintf("pod %s: bind failed but the store holds %s for it", p.Name, ip))
			}
		}
	}
	// C06: bind on a filter-approved node succeeds or waits for the old pod's deletion
	if clean && r.FilterOK && contains(r.Offered, node) && err != nil && s.frozenSinceFilter && s.W.Pending("fips") == 0 {
		msg := err.Error()
		if !strings.Contains(msg, "waiting for delete event") && !strings.Contains(msg, "failed to find pod") && !strings.Contains(msg, "waiting for cache to be synced") {
			s.alarm("C06", "bind-failed-on-filter-approved-node", fmt.Sprintf("filter offered %s for pod %s and nothing changed, but bind failed: %v", node, p.Name, err))
		}
	}
}

// injectedOnCreate reports whether the fault of the current operation hit a FloatingIP object creation (the fault
// class C08 quantifies over).
func (s *Sim) injectedOnCreate() bool {
	for _, h := range s.W.In.Hit {
		if strings.Contains(h, " create floatingips/") {
			return true
		}
	}
	return false
}

func (s *Sim) lastOp() string {
	if n := len(s.Steps); n > 0 {
		return s.Steps[n-1].Op
	}
	return ""
}

// lastBindFilterPredatesSize: the pod bound in the last step was filtered when the pool had no size, or a larger one.
// lastBindHeldNothing: the pod of the last bind belongs to the pool and its key held no IP right before the bind.
func (s *Sim) lastBindHeldNothing(pool string) bool {
	if s.lastBindPod == "" {
		return false
	}
	r := s.Pods[s.lastBindPod]
	if r == nil || r.WL.Pool != pool {
		return false
	}
	return len(heldBy(s.prevDump, s.podKey(r.WL, r.Name))) == 0
}

func (s *Sim) lastBindFilterPredatesSize(pool string, bound int) bool {
	if s.lastBindPod == "" {
		return false
	}
	r := s.Pods[s.lastBindPod]
	if r == nil || r.WL.Pool != pool {
		return false
	}
	return r.PoolSizeAtFilter < 0 || r.PoolSizeAtFilter > bound
}
