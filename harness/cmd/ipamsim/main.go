// Engine ipamsim: deterministic simulation of galaxy-ipam (real scheduler plugin + real CRD IPAM + real HTTP API)
// against a simulated cluster with harness-controlled informer lag, event order, faults and crashes.
// Decides C01 C02 C03 C04 C05 C06 C08 C10 (one property per invocation: -prop).
package main

import (
	"encoding/json"
	"flag"
	"fmt"
	"os"
	"runtime"
	"sort"
	"strings"
	"sync"
	"time"

	corev1 "k8s.io/api/core/v1"
	"k8s.io/klog"

	"verif/harness/evid"
	"verif/harness/model"
	"verif/harness/world"
)

// extra Sim fields live here to keep sim.go readable
type simExtra struct {
	Alarms                 []Alarm
	Inconclusive           []string
	Counts                 map[string]int
	LostReplyDisagreements int
	bindSeen               int
	replHist               map[string][]int
	poolEver               map[string]bool
	prevPoolCnt            map[string]int
	prevPoolBound          map[string]int
	prevPoolHad            map[string]bool
	provState              map[string]string
	provSeen               int
	compoundCheck          bool
	frozenSinceFilter      bool
	lastFilterPod          string
}

type caseResult struct {
	id        string
	alarms    []Alarm
	witness   map[string]interface{}
	counts    map[string]int
	inconcl   []string
	lostReply int
	shape     string
	sample    interface{}
}

type params struct {
	prop       string
	steps      int
	faultEvery int // explore injections on every n-th step (0 = never)
	faultOps   map[string]bool // if set: only these operation kinds are explored with injections
	faultMaxK  int // max call indices per explored op (0 = all)
	routeEvery int // M-route on every n-th successful filter (0 = never)
	interleave int // interleaved executions per explored step (0 = none)
	templates  bool
}

func paramsFor(prop, tier string) params {
	th := tier == "thorough"
	p := params{prop: prop, steps: 45, faultEvery: 9, faultMaxK: 2, routeEvery: 4, templates: true}
	switch prop {
	case "C01", "C04", "C10":
		p.interleave = 2
	case "C05", "C09":
		p.interleave = 1
	}
	if th {
		p.interleave *= 2
	}
	if th {
		p.steps = 70
		p.faultEvery = 5
		p.faultMaxK = 0
		p.routeEvery = 2
	}
	switch prop {
	case "C05":
		p.faultEvery = 3
		if th {
			p.faultEvery = 2
		}
		p.routeEvery = 0
	case "C08":
		p.faultEvery = 3
		p.routeEvery = 0
	case "C10":
		p.faultEvery = 3
		p.routeEvery = 0
	case "C06":
		p.routeEvery = 1
		p.faultEvery = 0
	case "C02":
		// C02 does not quantify over faults, but a bind that SUCCEEDS must respect stickiness whatever happened before:
		// filters are also run with one cleanly failing API call, followed by the bind the scheduler issues if nodes were offered
		p.faultEvery = 4
		p.faultOps = map[string]bool{"filter": true}
		p.routeEvery = 0
	case "C03", "C07":
		p.faultEvery = 0
		p.routeEvery = 0
	case "C09":
		p.routeEvery = 0
	}
	return p
}

func cases(prop, tier string) int {
	n := map[string][2]int{
		"C01": {1500, 8000}, "C02": {8000, 40000}, "C03": {8000, 40000}, "C04": {1500, 8000},
		"C05": {700, 3000}, "C06": {1000, 6000}, "C08": {900, 6000}, "C10": {1000, 8000},
		"C07": {6000, 30000}, "C09": {1200, 8000},
	}[prop]
	if tier == "thorough" {
		return n[1]
	}
	return n[0]
}

func main() {
	klog.InitFlags(nil)
	_ = flag.Set("logtostderr", "false")
	_ = flag.Set("alsologtostderr", "false")
	_ = flag.Set("stderrthreshold", "FATAL")
	_ = flag.Set("v", "0")
	klog.SetOutput(devNull{})
	fl := evid.ParseFlags()
	level := "exploration"
	if fl.Prop == "C05" || fl.Prop == "C08" {
		level = "fault_enumeration"
	}
	run := evid.NewRun(fl.Prop, fl.Tier, fl.Seed, level, "ipamsim")
	run.Rule = "case = generated topology (2-5 pools, shared pod/node subnets, /32 node subnets) + 2-4 workloads (statefulset, deployment, " +
		"pool, TApp custom resource, bare pod; policies default/immutable/never; requested ranges) + a PRNG-driven history of " +
		"create/filter/bind/run/finish/delete/event-delivery/lost-event/unbind/resync/pod-ip-sync/scale/delete-app/rolling-update/" +
		"api-release/reload/restart/pool-set/reserve steps with injected API faults and crashes at sampled call indices, plus seeded " +
		"scenario templates; monitors run after every step. Non-trivial and distinct: fingerprint = property-specific situation " +
		"actually observed in the case (see counters), combined with workload-kind/policy mix and topology shape."
	pr := paramsFor(fl.Prop, fl.Tier)
	focus = fl.Prop
	n := cases(fl.Prop, fl.Tier)
	if v := os.Getenv("VERIF_CASES"); v != "" {
		fmt.Sscan(v, &n)
	}
	workers := runtime.NumCPU()
	if workers > 16 {
		workers = 16
	}
	var wg sync.WaitGroup
	jobs := make(chan int, n)
	results := make(chan *caseResult, n)
	for i := 0; i < n; i++ {
		jobs <- i
	}
	close(jobs)
	for wkr := 0; wkr < workers; wkr++ {
		wg.Add(1)
		go func() {
			defer wg.Done()
			for i := range jobs {
				results <- runCase(fl.Seed, i, pr)
			}
		}()
	}
	wg.Wait()
	close(results)
	var all []*caseResult
	for r := range results {
		all = append(all, r)
	}
	sort.Slice(all, func(i, j int) bool { return all[i].id < all[j].id })
	if dc := os.Getenv("VERIF_DEBUG_CASE"); dc != "" {
		for _, r := range all {
			if strings.HasSuffix(r.id, ":"+dc) {
				b, _ := json.MarshalIndent(r.witness, "", " ")
				fmt.Println(string(b))
				for _, a := range r.alarms {
					fmt.Println("ALARM", a.Prop, a.Sig, a.Msg)
				}
			}
		}
	}
	lost := 0
	for _, r := range all {
		run.Eval(1)
		for k, v := range r.counts {
			run.Count(k, int64(v))
		}
		lost += r.lostReply
		for _, s := range r.inconcl {
			run.Inconclusive(r.id + ": " + s)
		}
		if r.shape != "" {
			run.Nontrivial(r.shape)
		}
		if r.sample != nil {
			run.Sample(r.sample)
		}
		other := 0
		for _, a := range r.alarms {
			if os.Getenv("VERIF_DEBUG_ALL") != "" {
				fmt.Printf("ALARM %s %s case=%s: %s\n", a.Prop, a.Sig, r.id, firstLine(a.Msg))
			}
			if a.Prop != fl.Prop {
				other++
				continue
			}
			run.Violate(evid.Violation{Sig: a.Sig, Msg: a.Msg, Witness: r.witness, Case: r.id})
		}
		run.Count("alarms_of_other_properties_in_same_histories", int64(other))
	}
	run.Count("lost_reply_disagreements_observed_not_judged", int64(lost))
	run.Assume("the fake API server (client-go object trackers + a pods/binding reactor) behaves like the real one for the calls galaxy makes")
	run.Assume("informer caches may lag API truth arbitrarily but never reorder one resource's events; handler calls are coupled to cache updates, the unbind worker is decoupled (harness-owned release queue)")
	run.Assume("mid-call states of a single entry-point call are not observed (steps are whole calls)")
	floor := 2
	// the situations the property is about must actually have been produced
	need := map[string][]string{
		"C01": {"bindings", "stale_release_after_rebind", "reincarnations_bound"},
		"C02": {"c02_rebinds_with_reservation_sts", "c02_dp_filter_with_reserve"},
		"C03": {"quiescent_checks", "q_kept_never", "q_kept_immutable"},
		"C04": {"stale_release_after_rebind", "reincarnations_bound", "template_runs"},
		"C05": {"injected_executions", "crash_restarts", "restart_comparisons"},
		"C06": {"c06_fresh_filters", "route_binds_on_clones", "c06_filters_with_held_ip"},
		"C08": {"c08_multi_binds_ok", "c08_multi_binds_failed"},
		"C10": {"provider_assign", "provider_unassign"},
		"C07": {"pool_growths", "pool_reached_size", "steps_pool-set"},
		"C09": {"steps_reload", "steps_reserve", "reserved_event_pending_at_allocation"},
	}[fl.Prop]
	for _, k := range need {
		if run.Counter(k) == 0 {
			run.Inconclusive("situation counter " + k + " is zero: the run did not produce what the property is about")
		}
	}
	os.Exit(run.Finish(floor))
}

func firstLine(s string) string {
	if i := strings.Index(s, "\n"); i >= 0 {
		return s[:i]
	}
	return s
}

type devNull struct{}

func (devNull) Write(p []byte) (int, error) { return len(p), nil }

func runCase(seed int64, idx int, pr params) *caseResult {
	rng := evid.NewRng(seed, "ipamsim-case", idx)
	id := fmt.Sprintf("%d:%d", seed, idx)
	res := &caseResult{id: id, counts: map[string]int{}}
	withProv := rng.Intn(2) == 0
	if pr.prop == "C10" {
		withProv = rng.Intn(5) != 0
	}
	withTApp := idx%6 == 5
	s, err := NewSim(rng, id, withProv, withTApp)
	if err != nil {
		res.inconcl = append(res.inconcl, "cannot build world: "+err.Error())
		return res
	}
	finish := func() *caseResult {
		res.alarms = s.Alarms
		for k, v := range s.Counts {
			res.counts[k] += v
		}
		res.inconcl = append(res.inconcl, s.Inconclusive...)
		res.lostReply += s.LostReplyDisagreements
		res.witness = s.witness()
		for k, v := range res.counts {
			s.Counts[k] = v
		}
		res.shape = s.shape(pr.prop)
		if idx < 3 {
			res.sample = map[string]interface{}{"case": id, "config": s.W.ConfText, "workloads": s.describeWorkloads(), "first_steps": headSteps(s.Steps, 25)}
		}
		return res
	}
	merge := func(c *Sim) bool {
		for k, v := range c.Counts {
			res.counts[k] += v
		}
		c.Counts = map[string]int{}
		res.lostReply += c.LostReplyDisagreements
		res.inconcl = append(res.inconcl, c.Inconclusive...)
		if c.ownAlarms() > 0 {
			// the clone found something: report it with the clone's own history as witness
			s.Alarms = append(s.Alarms, c.Alarms...)
			s.Steps = c.Steps
			return true
		}
		return false
	}
	if pr.templates && idx%3 == 0 {
		s.runTemplate(idx / 3 % 3)
		if s.ownAlarms() > 0 {
			return finish()
		}
	}
	if pr.templates && idx%3 == 1 {
		s.runPartialPreownedTemplate()
		if s.ownAlarms() > 0 {
			return finish()
		}
	}
	filters := 0
	for i := 0; i < pr.steps; i++ {
		var op Op
		if c, ok := s.controllerOp(); ok && rng.Intn(3) == 0 {
			op = c
		} else {
			op = s.nextOp()
		}
		explore := pr.faultEvery > 0 && i%pr.faultEvery == pr.faultEvery-1 && injectable(op.Kind) && (pr.faultOps == nil || pr.faultOps[op.Kind])
		var pre *Sim
		if explore {
			pre, err = s.Clone(evid.NewRng(seed, "pre", idx*1000+i))
			if err != nil {
				res.inconcl = append(res.inconcl, "clone failed: "+err.Error())
				return finish()
			}
			s.compareWithClone(pre)
		}
		// M-route needs the state just before the bind that follows a filter
		s.exec(op, nil, nil)
		ncalls := s.W.In.EndOp()
		nprov := 0
		if s.W.Provider != nil {
			nprov = s.W.Provider.OpCalls()
		}
		if s.ownAlarms() > 0 {
			return finish()
		}
		s.noteSituations(op)
		if op.Kind == "filter" && pr.routeEvery > 0 {
			if r := s.Pods[op.Pod]; r != nil && r.FilterOK {
				filters++
				if filters%pr.routeEvery == 0 {
					for ni, node := range r.Offered {
						if ni >= 3 {
							break
						}
						c, err := s.Clone(evid.NewRng(seed, "route", idx*1000+i*10+ni))
						if err != nil {
							continue
						}
						c.frozenSinceFilter, c.lastFilterPod = true, op.Pod
						// the clone's plugin is fresh: its lister must know the pod for Bind to find it
						for c.W.Pending("pods") > 0 {
							c.W.Deliver("pods", false)
						}
						if len(c.W.Releases) > 0 {
							continue // delivering events changed the world: not a frozen world any more
						}
						c.frozenSinceFilter, c.lastFilterPod = true, op.Pod
						c.exec(Op{Kind: "bind", Pod: op.Pod, Node: node}, nil, nil)
						res.counts["route_binds_on_clones"]++
						if merge(c) {
							return finish()
						}
					}
				}
			}
		}
		if explore && ncalls+nprov > 0 {
			ks := pickIndices(rng, ncalls, pr.faultMaxK)
			for _, k := range ks {
				for _, kind := range []world.InjectKind{world.FailAt, world.FailAfter, world.CrashBefore, world.CrashAfter} {
					if pr.faultOps != nil && kind != world.FailAt {
						continue // the restricted stage (C02) uses clean failures only
					}
					c, err := pre.Clone(evid.NewRng(seed, "inj", idx*100000+i*100+k*4+int(kind)))
					if err != nil {
						continue
					}
					crashed, wedged := execWatched(c, op, map[int]world.InjectKind{k: kind}, nil)
					if wedged {
						// the operation (or the monitors reading the IPAM right after it) did not return: a lock is held
						// or a loop spins after the injected fault. That is C18's business ("does not keep a lock held");
						// for the property in focus the run is inconclusive. The clone is abandoned.
						res.counts["wedged_after_injected_fault"]++
						res.inconcl = append(res.inconcl, fmt.Sprintf("operation %s did not return within 180 s after injection %s at call %d (lock held / spinning?)", op, kind, k))
						continue
					}
					res.counts["injected_executions"]++
					res.counts["injected_"+kind.String()]++
					if len(c.W.In.Hit) > 0 || crashed {
						res.counts["injections_hit"]++
					}
					if crashed {
						res.counts["crash_restarts"]++
						c.afterCrash()
					} else {
						c.faultMode = world.None
						// the scheduler retries a cleanly failed bind: filter again, bind on another offered node if there
						// is one (not after a lost reply: there memory and store may legitimately disagree, see C05)
						if kind == world.FailAt {
							c.retryElsewhere(op)
							c.bindAfterFaultyFilter(op)
							if op.Kind == "reload" && op.Topo != nil && c.ownAlarms() == 0 && c.lastOpErr != nil {
								// the periodic loop retries the reload; the ConfigMap still holds the new text
								c.Counts["reload_retries_after_failed_reload"]++
								c.exec(Op{Kind: "reload-retry", Topo: op.Topo}, nil, nil)
							}
						}
					}
					if merge(c) {
						return finish()
					}
				}
			}
			// interleavings at API-call granularity: pause this operation at a call and run other operations meanwhile
			for j := 0; j < pr.interleave && ncalls > 0; j++ {
				c, err := pre.Clone(evid.NewRng(seed, "ilv", idx*100000+i*100+j))
				if err != nil {
					continue
				}
				k := 1 + c.rng.Intn(ncalls)
				c.runInterleaved(op, k, c.rng.Intn(2) == 0, 1+c.rng.Intn(5))
				res.counts["interleaved_executions"]++
				if merge(c) {
					return finish()
				}
			}
			// seeded overlaps (release API vs re-bind; resync pass vs re-creation)
			if pr.interleave > 0 && i%(3*pr.faultEvery) == pr.faultEvery-1 {
				for kind := 0; kind < 3; kind++ {
					c, err := pre.Clone(evid.NewRng(seed, "ilt", idx*100000+i*100+kind))
					if err != nil {
						continue
					}
					if kind == 2 {
						c.interleaveDpUnbinds()
					} else {
						c.interleaveTemplate(kind)
					}
					if merge(c) {
						return finish()
					}
				}
			}
			// provider call failing cleanly
			for k := 1; k <= nprov && k <= 4; k++ {
				c, err := pre.Clone(evid.NewRng(seed, "prov", idx*100000+i*100+k))
				if err != nil {
					continue
				}
				c.exec(op, nil, map[int]bool{k: true})
				res.counts["injected_provider_failures"]++
				c.faultMode = world.None
				// the scheduler retries a failed bind (on another offered node if there is one); then let the real
				// retry paths run: release queue, resync
				c.retryElsewhere(op)
				c.quiesce()
				if merge(c) {
					return finish()
				}
			}
		}
		if i%9 == 8 {
			s.exec(Op{Kind: "quiesce"}, nil, nil)
			if s.ownAlarms() > 0 {
				return finish()
			}
		}
	}
	s.exec(Op{Kind: "quiesce"}, nil, nil)
	if pr.prop == "C06" && idx%4 == 3 && s.ownAlarms() == 0 {
		s.interleaveFilterReload()
	}
	if pr.prop == "C03" && idx%3 == 2 && s.ownAlarms() == 0 {
		// C03's deployment clause under overlapping unbinds (the history's end state is the starting point)
		s.interleaveDpUnbinds()
		if s.ownAlarms() == 0 {
			s.exec(Op{Kind: "quiesce"}, nil, nil)
		}
	}
	return finish()
}

// retryElsewhere is what kube-scheduler does after a failed bind: the pod stays pending, is filtered again and bound to
// one of the offered nodes - here a different node than the failed attempt's whenever the filter offers one.
func (c *Sim) retryElsewhere(op Op) {
	if op.Kind != "bind" || c.ownAlarms() > 0 {
		return
	}
	p := c.podByUID(op.Pod)
	if p == nil || !world.Live(p) || p.Spec.NodeName != "" {
		return
	}
	c.exec(Op{Kind: "filter", Pod: op.Pod}, nil, nil)
	r := c.Pods[op.Pod]
	if r == nil || !r.FilterOK || len(r.Offered) == 0 || c.ownAlarms() > 0 {
		return
	}
	node := r.Offered[0]
	for _, n := range r.Offered {
		if n != op.Node {
			node = n
			break
		}
	}
	c.Counts["retries_after_failed_bind"]++
	if node != op.Node {
		c.Counts["retries_after_failed_bind_on_other_node"]++
	}
	c.exec(Op{Kind: "bind", Pod: op.Pod, Node: node}, nil, nil)
}

// bindAfterFaultyFilter: a Filter call during which one API call failed cleanly and which nevertheless offered nodes is,
// for the scheduler, a successful filter: the pod is bound on one of the offered nodes. (A filter that reports the
// failure is simply retried later; nothing follows here.)
func (c *Sim) bindAfterFaultyFilter(op Op) {
	if op.Kind != "filter" || c.ownAlarms() > 0 || len(c.W.In.Hit) == 0 {
		return
	}
	p := c.podByUID(op.Pod)
	r := c.Pods[op.Pod]
	if p == nil || r == nil || !world.Live(p) || p.Spec.NodeName != "" || !r.FilterOK || len(r.Offered) == 0 {
		return
	}
	c.Counts["binds_after_filter_that_offered_nodes_despite_api_fault"]++
	c.frozenSinceFilter, c.lastFilterPod = true, op.Pod
	c.exec(Op{Kind: "bind", Pod: op.Pod, Node: r.Offered[c.rng.Intn(len(r.Offered))]}, nil, nil)
}

// execWatched runs exec under a generous wall-clock watchdog (inconclusive on expiry, never a verdict).
func execWatched(c *Sim, op Op, plan map[int]world.InjectKind, prov map[int]bool) (crashed, wedged bool) {
	done := make(chan bool, 1)
	go func() { done <- c.exec(op, plan, prov) }()
	select {
	case crashed = <-done:
		return crashed, false
	case <-time.After(180 * time.Second): // watchdog only
		return false, true
	}
}

func injectable(kind string) bool {
	switch kind {
	case "filter", "bind", "release", "resync", "syncips", "apirelease", "reload", "poolset", "deliver":
		return true
	}
	return false
}

func pickIndices(rng interface{ Intn(int) int }, n, max int) []int {
	var ks []int
	for k := 1; k <= n; k++ {
		ks = append(ks, k)
	}
	if max == 0 || n <= max {
		return ks
	}
	// sample without replacement
	for i := range ks {
		j := i + rng.Intn(len(ks)-i)
		ks[i], ks[j] = ks[j], ks[i]
	}
	ks = ks[:max]
	sort.Ints(ks)
	return ks
}

func headSteps(st []Step, n int) []Step {
	if len(st) > n {
		return st[:n]
	}
	return st
}

func (s *Sim) describeWorkloads() []string {
	var out []string
	for _, wl := range s.WLs {
		out = append(out, fmt.Sprintf("%s %s replicas=%d policy=%q pool=%q ranges=%s", wl.Kind, wl.Name, wl.Replicas, wl.Policy, wl.Pool, wl.Ranges))
	}
	return out
}

func (s *Sim) witness() map[string]interface{} {
	var nodes []string
	for _, n := range s.Topo.Nodes {
		nodes = append(nodes, n.Name+"="+n.IP)
	}
	st := s.Steps
	if len(st) > 120 {
		st = st[len(st)-120:]
	}
	return map[string]interface{}{"case": s.caseID, "config": s.W.ConfText, "nodes": nodes, "workloads": s.describeWorkloads(),
		"provider": s.W.Provider != nil, "steps": st}
}

// shape is the fingerprint that makes a case distinct and non-trivial for the property being decided.
func (s *Sim) shape(prop string) string {
	var kinds []string
	for _, wl := range s.WLs {
		kinds = append(kinds, fmt.Sprintf("%s/%s/%v/%v", wl.Kind, wl.Policy, wl.Pool != "", wl.Ranges != ""))
	}
	sort.Strings(kinds)
	shared := 0
	seen := map[string]int{}
	for _, p := range s.Topo.Pools {
		seen["pod"+p.Subnet.String()]++
		for _, n := range p.NodeSubnets {
			seen["node"+n.String()]++
		}
	}
	for _, v := range seen {
		if v > 1 {
			shared++
		}
	}
	key := map[string][]string{
		"C01": {"bindings", "stale_release_after_rebind", "reincarnations_bound"},
		"C02": {"c02_rebinds_with_reservation_sts", "c02_rebinds_with_reservation_tapp", "c02_rebinds_with_reservation_bare", "c02_rebinds_with_reservation_dp", "c02_dp_filter_with_reserve"},
		"C03": {"q_kept_never", "q_kept_immutable", "q_kept_app_reserve", "q_kept_pool_reserve", "ips_released"},
		"C04": {"stale_release_after_rebind", "reincarnations_bound", "bindings"},
		"C05": {"injections_hit", "crash_restarts"},
		"C06": {"c06_fresh_filters_strict_subset", "route_binds_on_clones", "c06_filters_with_held_ip"},
		"C08": {"c08_multi_binds_ok", "c08_multi_binds_failed"},
		"C10": {"provider_assign", "provider_unassign", "provider_moves", "provider_calls_failed"},
		"C07": {"pool_growths", "pool_reached_size", "steps_pool-set"},
		"C09": {"steps_reload", "steps_reserve", "steps_unreserve", "reserved_event_pending_at_allocation", "reload_dropped_allocated_ip"},
	}[prop]
	nontrivial := false
	var obs []string
	for _, k := range key {
		if s.Counts[k] > 0 {
			nontrivial = true
			obs = append(obs, k)
		}
	}
	if !nontrivial {
		return ""
	}
	return fmt.Sprintf("%s|pools=%d shared=%d|%s", strings.Join(kinds, ","), len(s.Topo.Pools), shared, strings.Join(obs, ","))
}

// noteSituations counts the situations the properties are about, from the harness's own bookkeeping.
func (s *Sim) noteSituations(op Op) {
	switch op.Kind {
	case "bind":
		r := s.Pods[op.Pod]
		if r == nil {
			return
		}
		if _, ok := s.told()[op.Pod]; ok {
			// a re-incarnation: another uid with the same name existed before
			for uid, o := range s.Pods {
				if uid != op.Pod && o.Name == r.Name {
					s.Counts["reincarnations_bound"]++
					break
				}
			}
		}
	case "release":
		// a release event of an older incarnation handled while a same-named newer incarnation is bound and live
		if n := len(s.Steps); n > 0 {
			arg := s.Steps[n-1].Arg
			parts := strings.Fields(arg)
			if len(parts) > 0 {
				nu := strings.SplitN(parts[0], "/", 2)
				if len(nu) == 2 {
					if p := s.W.GetPod(NS, nu[0]); p != nil && string(p.UID) != nu[1] && p.Spec.NodeName != "" && world.Live(p) {
						s.Counts["stale_release_after_rebind"]++
					}
				}
			}
		}
	}
	freed := 0
	_ = freed
}

// runTemplate seeds the orderings named by C04: (0) late delete event of a finished older incarnation after the
// same-named replacement is bound; (1) bind of the replacement attempted while the old delete is unhandled;
// (2) lister lag in Bind (lister still holds the old incarnation).
func (s *Sim) runTemplate(kind int) {
	var wl *Workload
	var wi int
	for i, w := range s.WLs {
		if (w.Kind == KSts || w.Kind == KBare) && w.Ranges == "" {
			wl, wi = w, i
			break
		}
	}
	if wl == nil {
		return
	}
	s.Counts["template_runs"]++
	do := func(o Op) { s.exec(o, nil, nil) }
	deliverAll := func() {
		for _, r := range []string{"sts", "dp", "pools", "pods"} {
			for s.W.Pending(r) > 0 {
				do(Op{Kind: "deliver", Res: r})
			}
		}
	}
	firstPodOf := func() *corev1.Pod {
		ps := s.podsOf(wl)
		if len(ps) == 0 {
			return nil
		}
		return ps[0]
	}
	bindIt := func(p *corev1.Pod) bool {
		do(Op{Kind: "filter", Pod: string(p.UID)})
		r := s.Pods[string(p.UID)]
		if r == nil || len(r.Offered) == 0 {
			return false
		}
		do(Op{Kind: "bind", Pod: string(p.UID), Node: r.Offered[0]})
		q := s.podByUID(string(p.UID))
		return q != nil && q.Spec.NodeName != ""
	}
	do(Op{Kind: "create", WL: wi})
	deliverAll()
	a := firstPodOf()
	if a == nil || !bindIt(a) {
		return
	}
	deliverAll()
	do(Op{Kind: "run", Pod: string(a.UID)})
	deliverAll()
	switch kind {
	case 0:
		do(Op{Kind: "finish", Pod: string(a.UID)})
		deliverAll() // UpdatePod: finished -> release event 1
		for len(s.W.Releases) > 0 {
			do(Op{Kind: "release", Idx: 0})
		}
		do(Op{Kind: "delete", Pod: string(a.UID)})
		deliverAll() // DeletePod: release event 2 queued, held back
		do(Op{Kind: "create", WL: wi})
		deliverAll()
		b := firstPodOf()
		if b == nil || !bindIt(b) {
			return
		}
		deliverAll()
		for len(s.W.Releases) > 0 && s.ownAlarms() == 0 { // now the old incarnation's delete is handled
			do(Op{Kind: "release", Idx: 0})
			s.noteSituations(Op{Kind: "release"})
		}
		do(Op{Kind: "resync"})
	case 1:
		do(Op{Kind: "delete", Pod: string(a.UID)})
		deliverAll() // release queued, not handled
		do(Op{Kind: "create", WL: wi})
		deliverAll()
		b := firstPodOf()
		if b == nil {
			return
		}
		bound := bindIt(b) // may have to wait for the delete event
		for len(s.W.Releases) > 0 && s.ownAlarms() == 0 {
			do(Op{Kind: "release", Idx: 0})
			s.noteSituations(Op{Kind: "release"})
		}
		if !bound {
			bindIt(b)
		}
		deliverAll()
		do(Op{Kind: "resync"})
	case 2:
		// lister keeps the old incarnation: neither the delete nor the add event is delivered before bind
		do(Op{Kind: "delete", Pod: string(a.UID)})
		do(Op{Kind: "create", WL: wi})
		b := firstPodOf()
		if b == nil {
			return
		}
		bindIt(b)
		s.noteSituations(Op{Kind: "bind", Pod: string(b.UID)})
		deliverAll()
		for len(s.W.Releases) > 0 && s.ownAlarms() == 0 {
			do(Op{Kind: "release", Idx: 0})
			s.noteSituations(Op{Kind: "release"})
		}
		do(Op{Kind: "resync"})
		do(Op{Kind: "syncips"})
	}
}

var _ = model.IPStr

// runPartialPreownedTemplate produces a pod identity that holds an IP for some but not all of its requested ranges
// when it is scheduled again: bind with k>=2 ranges, delete the pod (IPs reserved), release exactly one of the IPs
// through the API, re-create the pod, filter, bind.
func (s *Sim) runPartialPreownedTemplate() {
	var wl *Workload
	var wi int
	for i, w := range s.WLs {
		if w.Kind != KDp && w.effPolicy() != 0 && len(rangeLists(w.Ranges)) >= 2 {
			wl, wi = w, i
			break
		}
	}
	if wl == nil {
		return
	}
	do := func(o Op) { s.exec(o, nil, nil) }
	deliverAll := func() {
		for _, r := range []string{"sts", "dp", "pools", "pods"} {
			for s.W.Pending(r) > 0 && s.ownAlarms() == 0 {
				do(Op{Kind: "deliver", Res: r})
			}
		}
	}
	first := func() *corev1.Pod {
		ps := s.podsOf(wl)
		if len(ps) == 0 {
			return nil
		}
		return ps[0]
	}
	do(Op{Kind: "create", WL: wi})
	deliverAll()
	a := first()
	if a == nil {
		return
	}
	do(Op{Kind: "filter", Pod: string(a.UID)})
	r := s.Pods[string(a.UID)]
	if r == nil || len(r.Offered) == 0 {
		return
	}
	do(Op{Kind: "bind", Pod: string(a.UID), Node: r.Offered[s.rng.Intn(len(r.Offered))]})
	b, ok := s.told()[string(a.UID)]
	if !ok || len(b.IPs) < 2 {
		return
	}
	deliverAll()
	do(Op{Kind: "delete", Pod: string(a.UID)})
	deliverAll()
	for len(s.W.Releases) > 0 && s.ownAlarms() == 0 {
		do(Op{Kind: "release", Idx: 0})
	}
	// give up the IP of one range (the first one in half of the cases)
	drop := b.IPs[0]
	if s.rng.Intn(2) == 0 {
		drop = b.IPs[s.rng.Intn(len(b.IPs))]
	}
	do(Op{Kind: "apirelease", Str: drop})
	s.Counts["template_partial_preowned"]++
	do(Op{Kind: "create", WL: wi})
	deliverAll()
	n := first()
	if n == nil {
		return
	}
	do(Op{Kind: "filter", Pod: string(n.UID)})
	r = s.Pods[string(n.UID)]
	if r == nil || len(r.Offered) == 0 {
		return
	}
	do(Op{Kind: "bind", Pod: string(n.UID), Node: r.Offered[s.rng.Intn(len(r.Offered))]})
	deliverAll()
}
