// Package evid is the shared plumbing of every engine: run parameters, seeded randomness, violation
// collection with known-finding matching, replay files and the evidence file.
package evid

import (
	"bufio"
	"encoding/json"
	"flag"
	"fmt"
	"math/rand"
	"os"
	"path/filepath"
	"sort"
	"strconv"
	"strings"
	"sync"
	"time"
)

const (
	VerifDir      = "/verif"
	FindingsFile  = VerifDir + "/known_findings.txt"
	ExitHeld      = 0
	ExitViolation = 1
	ExitBroken    = 2
)

// Violation is one refuting observation.
type Violation struct {
	Sig     string      `json:"sig"`     // specific signature, matched against known_findings.txt
	Msg     string      `json:"msg"`     // what was observed
	Witness interface{} `json:"witness"` // input / step list / history needed to replay
	Case    string      `json:"case"`    // seed:index of the generated case
}

// Run holds the state of one check run.
type Run struct {
	Prop   string
	Tier   string
	Seed   int64
	Level  string
	Engine string

	start time.Time
	mu    sync.Mutex
	// coverage
	// ExtraEvaluations / ExtraNontrivial are added to the totals: counts measured by an earlier engine of the same
	// check whose evidence was merged into this run (the breakdown is kept under coverage.earlier_engine)
	ExtraEvaluations int64
	ExtraNontrivial  int64
	Evaluations      int64
	nontrivial       map[string]struct{}
	Rule             string
	samples          []interface{}
	counters         map[string]int64
	extra            map[string]interface{}
	assumptions      []string
	violations       []Violation
	knownSeen        map[string]int
	inconcl          []string
	findings         map[string]string // sig -> text for this property
	maxSamples       int
}

// Flags are the common engine flags.
type Flags struct {
	Prop, Tier, Replay string
	Seed               int64
	Child              string
}

// ParseFlags parses the common flags (and VERIF_SEED / VERIF_TIER).
func ParseFlags() *Flags {
	f := &Flags{}
	flag.StringVar(&f.Prop, "prop", "", "property id")
	flag.StringVar(&f.Tier, "tier", "", "quick|thorough")
	flag.StringVar(&f.Replay, "replay", "", "replay file")
	flag.StringVar(&f.Child, "child", "", "internal: child mode")
	seed := flag.String("seed", "", "seed")
	flag.Parse()
	if f.Tier == "" {
		f.Tier = os.Getenv("VERIF_TIER")
	}
	if f.Tier != "thorough" {
		f.Tier = "quick"
	}
	s := *seed
	if s == "" {
		s = os.Getenv("VERIF_SEED")
	}
	f.Seed = 20260927
	if s != "" {
		if v, err := strconv.ParseInt(s, 10, 64); err == nil {
			f.Seed = v
		}
	}
	return f
}

// NewRun creates a run.
func NewRun(prop, tier string, seed int64, level, engine string) *Run {
	r := &Run{Prop: prop, Tier: tier, Seed: seed, Level: level, Engine: engine, start: time.Now(),
		nontrivial: map[string]struct{}{}, counters: map[string]int64{}, extra: map[string]interface{}{},
		knownSeen: map[string]int{}, findings: map[string]string{}, maxSamples: 6}
	r.loadFindings()
	return r
}

func (r *Run) loadFindings() {
	f, err := os.Open(FindingsFile)
	if err != nil {
		return
	}
	defer f.Close()
	sc := bufio.NewScanner(f)
	sc.Buffer(make([]byte, 1<<20), 1<<20)
	for sc.Scan() {
		line := strings.TrimSpace(sc.Text())
		if !strings.HasPrefix(line, "finding:") {
			continue
		}
		rest := strings.TrimSpace(strings.TrimPrefix(line, "finding:"))
		fields := strings.Fields(rest)
		var prop, sig string
		for _, fd := range fields {
			if strings.HasPrefix(fd, "property=") {
				prop = strings.TrimPrefix(fd, "property=")
			} else if strings.HasPrefix(fd, "sig=") {
				sig = strings.TrimPrefix(fd, "sig=")
			}
		}
		if prop != r.Prop || sig == "" {
			continue
		}
		text := rest
		if i := strings.Index(rest, "--"); i >= 0 {
			text = strings.TrimSpace(rest[i+2:])
		}
		r.findings[sig] = text
	}
}

// Rng returns a deterministic PRNG for (seed, stream, index).
func (r *Run) Rng(stream string, idx int) *rand.Rand {
	return NewRng(r.Seed, stream, idx)
}

// NewRng returns a deterministic PRNG for (seed, stream, index).
func NewRng(seed int64, stream string, idx int) *rand.Rand {
	h := uint64(seed)*0x9E3779B97F4A7C15 + uint64(idx)*0xBF58476D1CE4E5B9
	for _, c := range []byte(stream) {
		h = (h ^ uint64(c)) * 0x100000001B3
	}
	h ^= h >> 31
	return rand.New(rand.NewSource(int64(h & 0x7fffffffffffffff)))
}

// Eval counts evaluations.
func (r *Run) Eval(n int) {
	r.mu.Lock()
	r.Evaluations += int64(n)
	r.mu.Unlock()
}

// Nontrivial records a distinct non-trivial case by its fingerprint.
func (r *Run) Nontrivial(fp string) {
	r.mu.Lock()
	r.nontrivial[fp] = struct{}{}
	r.mu.Unlock()
}

// Count adds to a named counter.
func (r *Run) Count(name string, n int64) {
	r.mu.Lock()
	r.counters[name] += n
	r.mu.Unlock()
}

// Counter reads a named counter.
func (r *Run) Counter(name string) int64 {
	r.mu.Lock()
	defer r.mu.Unlock()
	return r.counters[name]
}

// Max keeps the maximum of a named counter.
func (r *Run) Max(name string, v int64) {
	r.mu.Lock()
	if v > r.counters[name] {
		r.counters[name] = v
	}
	r.mu.Unlock()
}

// Set stores an extra coverage key.
func (r *Run) Set(name string, v interface{}) {
	r.mu.Lock()
	r.extra[name] = v
	r.mu.Unlock()
}

// Sample keeps up to maxSamples samples.
func (r *Run) Sample(s interface{}) {
	r.mu.Lock()
	if len(r.samples) < r.maxSamples {
		r.samples = append(r.samples, s)
	}
	r.mu.Unlock()
}

// Assume records an assumption.
func (r *Run) Assume(s string) {
	r.mu.Lock()
	r.assumptions = append(r.assumptions, s)
	r.mu.Unlock()
}

// Violate records a violation.
func (r *Run) Violate(v Violation) {
	r.mu.Lock()
	defer r.mu.Unlock()
	if _, ok := r.findings[v.Sig]; ok {
		r.knownSeen[v.Sig]++
		return
	}
	// keep at most 50 full witnesses
	if len(r.violations) < 50 {
		r.violations = append(r.violations, v)
	} else {
		r.counters["violations_dropped"]++
	}
}

// Violations returns the number of unlisted violations so far.
func (r *Run) Violations() int {
	r.mu.Lock()
	defer r.mu.Unlock()
	return len(r.violations)
}

// Inconclusive records a reason the run cannot be trusted as "held".
func (r *Run) Inconclusive(reason string) {
	r.mu.Lock()
	r.inconcl = append(r.inconcl, reason)
	r.mu.Unlock()
}

// Merge adds a child's partial result.
func (r *Run) Merge(p *Partial) {
	r.mu.Lock()
	defer r.mu.Unlock()
	r.Evaluations += p.Evaluations
	for _, k := range p.Nontrivial {
		r.nontrivial[k] = struct{}{}
	}
	for k, v := range p.Counters {
		if strings.HasPrefix(k, "max_") {
			if v > r.counters[k] {
				r.counters[k] = v
			}
		} else {
			r.counters[k] += v
		}
	}
	for _, s := range p.Samples {
		if len(r.samples) < r.maxSamples {
			r.samples = append(r.samples, s)
		}
	}
	for _, v := range p.Violations {
		if _, ok := r.findings[v.Sig]; ok {
			r.knownSeen[v.Sig]++
			continue
		}
		if len(r.violations) < 50 {
			r.violations = append(r.violations, v)
		}
	}
	for k, n := range p.KnownSeen {
		r.knownSeen[k] += n
	}
	r.inconcl = append(r.inconcl, p.Inconclusive...)
}

// Partial is what a child process reports to its parent.
type Partial struct {
	Evaluations  int64            `json:"evaluations"`
	Nontrivial   []string         `json:"nontrivial"`
	Counters     map[string]int64 `json:"counters"`
	Samples      []interface{}    `json:"samples"`
	Violations   []Violation      `json:"violations"`
	KnownSeen    map[string]int   `json:"known_seen"`
	Inconclusive []string         `json:"inconclusive"`
}

// WritePartial writes the run's state as a Partial (child side).
func (r *Run) WritePartial(path string) error {
	r.mu.Lock()
	p := &Partial{Evaluations: r.Evaluations, Counters: r.counters, Samples: r.samples, Violations: r.violations,
		KnownSeen: r.knownSeen, Inconclusive: r.inconcl}
	for k := range r.nontrivial {
		p.Nontrivial = append(p.Nontrivial, k)
	}
	r.mu.Unlock()
	data, err := json.Marshal(p)
	if err != nil {
		return err
	}
	return os.WriteFile(path, data, 0644)
}

// ReadPartial reads a child's Partial.
func ReadPartial(path string) (*Partial, error) {
	data, err := os.ReadFile(path)
	if err != nil {
		return nil, err
	}
	var p Partial
	if err := json.Unmarshal(data, &p); err != nil {
		return nil, err
	}
	return &p, nil
}

// Finish writes replay files and the evidence file, prints verdict lines and returns the exit code.
// minNontrivial: the run is inconclusive if fewer distinct non-trivial cases were observed.
func (r *Run) Finish(minNontrivial int) int {
	r.mu.Lock()
	defer r.mu.Unlock()
	wall := time.Since(r.start).Seconds()
	outDir := VerifDir
	if d := os.Getenv("VERIF_OUT_DIR"); d != "" {
		// used when an engine is run as a sub-process of another check (e.g. under the race detector for C19):
		// its evidence and replay files must not overwrite the registered ones
		outDir = d
	}
	_ = os.MkdirAll(filepath.Join(outDir, "evidence"), 0755)
	_ = os.MkdirAll(filepath.Join(outDir, "replay"), 0755)

	if int64(len(r.nontrivial))+r.ExtraNontrivial < int64(minNontrivial) {
		r.inconcl = append(r.inconcl, fmt.Sprintf("only %d distinct non-trivial cases observed (floor %d)",
			len(r.nontrivial), minNontrivial))
	}
	// known findings re-observed
	sigs := make([]string, 0, len(r.knownSeen))
	for s := range r.knownSeen {
		sigs = append(sigs, s)
	}
	sort.Strings(sigs)
	for _, s := range sigs {
		fmt.Printf("KNOWN-FINDING: property=%s sig=%s seen=%d -- %s\n", r.Prop, s, r.knownSeen[s], r.findings[s])
	}
	// listed findings this run's cases did not reproduce (rare situations, or found by the other engine of a
	// two-engine check): still one line each, so that the list in force is visible in every run
	var unseen []string
	for s := range r.findings {
		if _, ok := r.knownSeen[s]; !ok {
			unseen = append(unseen, s)
		}
	}
	sort.Strings(unseen)
	for _, s := range unseen {
		fmt.Printf("KNOWN-FINDING: property=%s sig=%s seen=0 (not reproduced by this run's cases) -- %s\n", r.Prop, s, r.findings[s])
	}
	// unlisted violations
	var replayPaths []string
	bySig := map[string]int{}
	for i, v := range r.violations {
		bySig[v.Sig]++
		if bySig[v.Sig] > 3 {
			continue // at most 3 replay files per signature
		}
		path := filepath.Join(outDir, "replay", fmt.Sprintf("%s-%s-%d-%d.json", r.Prop, sanitize(v.Sig), r.Seed, i))
		data, _ := json.MarshalIndent(map[string]interface{}{"property": r.Prop, "engine": r.Engine, "tier": r.Tier,
			"seed": r.Seed, "violation": v}, "", " ")
		_ = os.WriteFile(path, data, 0644)
		replayPaths = append(replayPaths, path)
		fmt.Printf("VIOLATION property=%s replay=%s\n", r.Prop, path)
		fmt.Printf("  sig=%s case=%s: %s\n", v.Sig, v.Case, v.Msg)
	}
	cov := map[string]interface{}{
		"evaluations":         r.Evaluations + r.ExtraEvaluations,
		"distinct_nontrivial": int64(len(r.nontrivial)) + r.ExtraNontrivial,
		"rule":                r.Rule,
		"samples":             r.samples,
		"counters":            r.counters,
	}
	if len(r.samples) == 0 {
		cov["samples"] = []interface{}{"(no sample recorded)"}
	}
	for k, v := range r.extra {
		cov[k] = v
	}
	if len(r.knownSeen) > 0 {
		cov["known_findings_reobserved"] = r.knownSeen
	}
	if len(bySig) > 0 {
		cov["violation_signatures"] = bySig
	}
	if len(r.inconcl) > 0 {
		cov["inconclusive"] = r.inconcl
	}
	ev := map[string]interface{}{
		"property_id": r.Prop, "tier": r.Tier, "seed": r.Seed, "level": r.Level, "coverage": cov,
		"assumptions": r.assumptions, "wall_s": wall, "violations": len(r.violations), "engine": r.Engine,
	}
	if r.assumptions == nil {
		ev["assumptions"] = []string{}
	}
	data, _ := json.MarshalIndent(ev, "", " ")
	if err := os.WriteFile(filepath.Join(outDir, "evidence", r.Prop+".json"), data, 0644); err != nil {
		fmt.Fprintf(os.Stderr, "cannot write evidence: %v\n", err)
		return ExitBroken
	}
	fmt.Printf("%s %s tier=%s seed=%d evaluations=%d nontrivial=%d violations=%d known=%d wall=%.1fs\n",
		r.Prop, r.Engine, r.Tier, r.Seed, r.Evaluations, len(r.nontrivial), len(r.violations), len(r.knownSeen), wall)
	keys := make([]string, 0, len(r.counters))
	for k := range r.counters {
		keys = append(keys, k)
	}
	sort.Strings(keys)
	for _, k := range keys {
		fmt.Printf("  %s=%d\n", k, r.counters[k])
	}
	if len(r.violations) > 0 {
		return ExitViolation
	}
	if len(r.inconcl) > 0 {
		for _, s := range r.inconcl {
			fmt.Printf("INCONCLUSIVE property=%s: %s\n", r.Prop, s)
		}
		return ExitBroken
	}
	return ExitHeld
}

func sanitize(s string) string {
	var b strings.Builder
	for _, c := range s {
		if (c >= 'a' && c <= 'z') || (c >= 'A' && c <= 'Z') || (c >= '0' && c <= '9') || c == '-' || c == '_' {
			b.WriteRune(c)
		} else {
			b.WriteByte('_')
		}
	}
	if b.Len() > 60 {
		return b.String()[:60]
	}
	return b.String()
}

// Tiered picks a by tier.
func Tiered(tier string, quick, thorough int) int {
	if tier == "thorough" {
		return thorough
	}
	return quick
}

// MergeEarlier folds the evidence file an earlier engine of the same check has just written for this property into
// this run (the driver runs the engines of a two-engine check in order and passes -merge to the later one): the
// earlier engine's coverage is kept under "earlier_engine", evaluations and distinct_nontrivial become the sums.
func (r *Run) MergeEarlier(thisEngine string) {
	dir := VerifDir
	if d := os.Getenv("VERIF_OUT_DIR"); d != "" {
		dir = d
	}
	data, err := os.ReadFile(filepath.Join(dir, "evidence", r.Prop+".json"))
	if err != nil {
		r.Inconclusive("merge requested but the earlier engine's evidence is missing")
		return
	}
	var ev struct {
		Coverage   map[string]interface{} `json:"coverage"`
		Violations int                    `json:"violations"`
		Engine     string                 `json:"engine"`
		WallS      float64                `json:"wall_s"`
	}
	if err := json.Unmarshal(data, &ev); err != nil {
		r.Inconclusive("merge requested but the earlier engine's evidence does not parse")
		return
	}
	r.Set("earlier_engine", map[string]interface{}{"engine": ev.Engine, "coverage": ev.Coverage, "violations": ev.Violations, "wall_s": ev.WallS})
	if v, ok := ev.Coverage["evaluations"].(float64); ok {
		r.Count("earlier_engine_evaluations", int64(v))
		r.ExtraEvaluations += int64(v)
	}
	if v, ok := ev.Coverage["distinct_nontrivial"].(float64); ok {
		r.Count("earlier_engine_distinct_nontrivial", int64(v))
		r.ExtraNontrivial += int64(v)
	}
	if sm, ok := ev.Coverage["samples"].([]interface{}); ok {
		for i, x := range sm {
			if i < 2 {
				r.Sample(map[string]interface{}{"from_engine": ev.Engine, "sample": x})
			}
		}
	}
	r.Rule = "ENGINE 1 (" + ev.Engine + "): " + fmt.Sprint(ev.Coverage["rule"]) + " || ENGINE 2 (" + thisEngine + "): " + r.Rule +
		" || evaluations and distinct_nontrivial are the sums over both engines (fingerprints of different engines never coincide)"
}
