package world

import (
	"context"
	"encoding/json"
	"fmt"
	"sort"
	"strings"
	"sync"
	"time"

	appsv1 "k8s.io/api/apps/v1"
	corev1 "k8s.io/api/core/v1"
	extv1 "k8s.io/apiextensions-apiserver/pkg/apis/apiextensions/v1"
	extfake "k8s.io/apiextensions-apiserver/pkg/client/clientset/clientset/fake"
	extlister "k8s.io/apiextensions-apiserver/pkg/client/listers/apiextensions/v1"
	apierrors "k8s.io/apimachinery/pkg/api/errors"
	"k8s.io/apimachinery/pkg/api/resource"
	metav1 "k8s.io/apimachinery/pkg/apis/meta/v1"
	"k8s.io/apimachinery/pkg/apis/meta/v1/unstructured"
	"k8s.io/apimachinery/pkg/runtime"
	"k8s.io/apimachinery/pkg/runtime/schema"
	"k8s.io/apimachinery/pkg/types"
	dynfake "k8s.io/client-go/dynamic/fake"
	kubefake "k8s.io/client-go/kubernetes/fake"
	appslister "k8s.io/client-go/listers/apps/v1"
	corelister "k8s.io/client-go/listers/core/v1"
	k8stesting "k8s.io/client-go/testing"
	"k8s.io/client-go/tools/cache"
	"tkestack.io/galaxy/pkg/api/galaxy/constant"
	galaxyv1alpha1 "tkestack.io/galaxy/pkg/ipam/apis/galaxy/v1alpha1"
	galaxyfake "tkestack.io/galaxy/pkg/ipam/client/clientset/versioned/fake"
	galaxylisterpkg "tkestack.io/galaxy/pkg/ipam/client/listers/galaxy/v1alpha1"
	"tkestack.io/galaxy/pkg/ipam/cloudprovider/rpc"
	ipamcontext "tkestack.io/galaxy/pkg/ipam/context"
	"tkestack.io/galaxy/pkg/ipam/floatingip"
	"tkestack.io/galaxy/pkg/ipam/schedulerplugin"
)

const (
	CMNamespace = "kube-system"
	CMName      = "floatingip-config"
	CMKey       = "floatingips"
	TAppGroup   = "apps.tkestack.io"
	TAppKind    = "TApp"
)

var TAppGVR = schema.GroupVersionResource{Group: TAppGroup, Version: "v1alpha1", Resource: "tapps"}

// EventKind is the kind of a watch event.
type EventKind int

const (
	Add EventKind = iota
	Update
	Delete
)

func (k EventKind) String() string { return [...]string{"add", "update", "delete"}[k] }

// Event is one watch event waiting to be delivered to the plugin's caches.
type Event struct {
	Res  string // pods sts dp pools fips
	Kind EventKind
	Old  runtime.Object
	New  runtime.Object
}

// Binding is one successful pods/binding create: what the pod was told.
type Binding struct {
	Seq    int
	NS     string
	Name   string
	UID    string
	Node   string
	Args   string   // raw annotation value
	IPs    []string // IPs named in the annotation, in order
	CallAt int64    // injector seq when the binding call was applied
}

// ProvCall is one cloud provider call.
type ProvCall struct {
	Seq    int
	Assign bool
	IP     string
	Node   string
	OK     bool
}

// Provider is a recording cloud provider.
type Provider struct {
	mu      sync.Mutex
	Calls   []ProvCall
	n       int
	FailAt  map[int]bool // 1-based call index within the current op → fail cleanly
	opCalls int
}

func (p *Provider) beginOp(fail map[int]bool) {
	p.mu.Lock()
	p.opCalls = 0
	p.FailAt = fail
	p.mu.Unlock()
}

func (p *Provider) record(assign bool, ip, node string) bool {
	p.mu.Lock()
	defer p.mu.Unlock()
	p.n++
	p.opCalls++
	ok := !p.FailAt[p.opCalls]
	p.Calls = append(p.Calls, ProvCall{Seq: p.n, Assign: assign, IP: ip, Node: node, OK: ok})
	return ok
}

// OpCalls returns the number of provider calls in the current op.
func (p *Provider) OpCalls() int {
	p.mu.Lock()
	defer p.mu.Unlock()
	return p.opCalls
}

func (p *Provider) AssignIP(in *rpc.AssignIPRequest) (*rpc.AssignIPReply, error) {
	if p.record(true, in.IPAddress, in.NodeName) {
		return &rpc.AssignIPReply{Success: true}, nil
	}
	return &rpc.AssignIPReply{Success: false, Msg: "injected provider failure"}, nil
}

func (p *Provider) UnAssignIP(in *rpc.UnAssignIPRequest) (*rpc.UnAssignIPReply, error) {
	if p.record(false, in.IPAddress, in.NodeName) {
		return &rpc.UnAssignIPReply{Success: true}, nil
	}
	return &rpc.UnAssignIPReply{Success: false, Msg: "injected provider failure"}, nil
}

// Snapshot returns a copy of the call log.
func (p *Provider) Snapshot() []ProvCall {
	p.mu.Lock()
	defer p.mu.Unlock()
	return append([]ProvCall(nil), p.Calls...)
}

// ReleaseEvent is one queued unbind request (harness-owned mirror of the plugin's channel).
type ReleaseEvent struct {
	Pod   *corev1.Pod
	Retry int
}

// World is one simulated cluster plus one running plugin instance.
type World struct {
	mu     sync.Mutex
	delMu  sync.Mutex
	relMu  sync.Mutex // guards Releases
	Kube   *kubefake.Clientset
	Galaxy *galaxyfake.Clientset
	Ext    *extfake.Clientset
	Dyn    *dynfake.FakeDynamicClient
	In     *Injector

	PodIdx, NodeIdx, StsIdx, DpIdx, PoolIdx, CrdIdx cache.Indexer

	fipHandler cache.ResourceEventHandler
	Events     map[string][]Event
	Releases   []ReleaseEvent

	Plugin   *schedulerplugin.FloatingIPPlugin
	Provider *Provider // nil = no provider configured
	ConfText string    // pool configuration in force (JSON array text)
	Restarts int

	BindLog  []Binding
	uidSeq   int
	WithTApp bool
	// RealLoop: the plugin's own Run() loop workers consume release events (concurrent engine); the harness
	// does not mirror the channel.
	RealLoop bool
}

// NewWorld creates an empty world (no plugin yet).
func NewWorld(withTApp bool) *World {
	w := &World{In: &Injector{}, Events: map[string][]Event{}, WithTApp: withTApp}
	w.Kube = kubefake.NewSimpleClientset()
	w.Galaxy = galaxyfake.NewSimpleClientset()
	w.Ext = extfake.NewSimpleClientset()
	w.Dyn = dynfake.NewSimpleDynamicClientWithCustomListKinds(runtime.NewScheme(),
		map[schema.GroupVersionResource]string{TAppGVR: "TAppList"})
	idx := func() cache.Indexer {
		return cache.NewIndexer(cache.MetaNamespaceKeyFunc, cache.Indexers{cache.NamespaceIndex: cache.MetaNamespaceIndexFunc})
	}
	w.PodIdx, w.NodeIdx, w.StsIdx, w.DpIdx, w.PoolIdx, w.CrdIdx = idx(), idx(), idx(), idx(), idx(), idx()
	w.installBindingReactor()
	if withTApp {
		_ = w.CrdIdx.Add(TAppCRD())
	}
	return w
}

// TAppCRD is the CRD of the scalable custom workload.
func TAppCRD() *extv1.CustomResourceDefinition {
	return &extv1.CustomResourceDefinition{
		ObjectMeta: metav1.ObjectMeta{Name: "tapps." + TAppGroup},
		Spec: extv1.CustomResourceDefinitionSpec{
			Group: TAppGroup,
			Scope: "Namespaced",
			Names: extv1.CustomResourceDefinitionNames{Plural: "tapps", Singular: "tapp", Kind: TAppKind, ListKind: "TAppList"},
			Versions: []extv1.CustomResourceDefinitionVersion{{Name: "v1alpha1", Served: true, Storage: true,
				Subresources: &extv1.CustomResourceSubresources{Scale: &extv1.CustomResourceSubresourceScale{
					SpecReplicasPath: ".spec.replicas", StatusReplicasPath: ".status.replicas"}}}},
		},
	}
}

// NewUID returns a fresh pod UID.
func (w *World) NewUID() string {
	w.mu.Lock()
	defer w.mu.Unlock()
	w.uidSeq++
	return fmt.Sprintf("uid-%04d", w.uidSeq)
}

func (w *World) installBindingReactor() {
	w.Kube.PrependReactor("create", "pods", func(action k8stesting.Action) (bool, runtime.Object, error) {
		if action.GetSubresource() != "binding" {
			return false, nil, nil
		}
		ca := action.(k8stesting.CreateAction)
		b := ca.GetObject().(*corev1.Binding)
		ns := action.GetNamespace()
		// every read-modify-write of a pod in API truth (binding, status update, delete) is serialised, as the API
		// server's optimistic concurrency would: otherwise concurrent harness writers lose each other's updates
		w.delMu.Lock()
		defer w.delMu.Unlock()
		obj, err := w.Kube.Tracker().Get(corev1.SchemeGroupVersion.WithResource("pods"), ns, b.Name)
		if err != nil {
			return true, nil, apierrors.NewNotFound(podGR, b.Name)
		}
		pod := obj.(*corev1.Pod).DeepCopy()
		if b.UID != "" && pod.UID != b.UID {
			return true, nil, apierrors.NewConflict(podGR, b.Name, fmt.Errorf("uid precondition failed: binding uid %s, pod uid %s", b.UID, pod.UID))
		}
		if pod.Spec.NodeName != "" {
			return true, nil, apierrors.NewConflict(podGR, b.Name, fmt.Errorf("pod %s is already assigned to node %q", b.Name, pod.Spec.NodeName))
		}
		pod.Spec.NodeName = b.Target.Name
		if pod.Annotations == nil {
			pod.Annotations = map[string]string{}
		}
		for k, v := range b.Annotations {
			pod.Annotations[k] = v
		}
		if err := w.Kube.Tracker().Update(corev1.SchemeGroupVersion.WithResource("pods"), pod, ns); err != nil {
			return true, nil, err
		}
		args := b.Annotations[constant.ExtendedCNIArgsAnnotation]
		bd := Binding{NS: ns, Name: b.Name, UID: string(pod.UID), Node: b.Target.Name, Args: args, IPs: IPsOfArgs(args),
			CallAt: w.In.Total()}
		w.mu.Lock()
		bd.Seq = len(w.BindLog) + 1
		w.BindLog = append(w.BindLog, bd)
		old := obj.(*corev1.Pod)
		w.Events["pods"] = append(w.Events["pods"], Event{Res: "pods", Kind: Update, Old: old.DeepCopy(), New: pod.DeepCopy()})
		w.mu.Unlock()
		return true, b, nil
	})
}

// IPsOfArgs extracts the IPs of the ipinfos in an args annotation value.
func IPsOfArgs(args string) []string {
	ca, err := constant.UnmarshalCniArgs(args)
	if err != nil || ca == nil {
		return nil
	}
	var ips []string
	for _, info := range ca.Common.IPInfos {
		if info.IP != nil && info.IP.IP != nil {
			ips = append(ips, info.IP.IP.String())
		}
	}
	return ips
}

type fipInformer struct {
	cache.SharedIndexInformer
	w *World
}

func (f *fipInformer) AddEventHandler(h cache.ResourceEventHandler) { f.w.fipHandler = h }

type fipInformerGetter struct{ w *World }

func (g *fipInformerGetter) Informer() cache.SharedIndexInformer { return &fipInformer{w: g.w} }
func (g *fipInformerGetter) Lister() galaxylisterpkg.FloatingIPLister {
	return nil
}

// ParsePools parses a pool configuration JSON array.
func ParsePools(text string) ([]*floatingip.FloatingIPPool, error) {
	var pools []*floatingip.FloatingIPPool
	if err := json.Unmarshal([]byte(text), &pools); err != nil {
		return nil, err
	}
	return pools, nil
}

// StartPlugin builds a fresh plugin instance over the current API truth and runs Init (a process start).
func (w *World) StartPlugin() error {
	pools, err := ParsePools(w.ConfText)
	if err != nil {
		return fmt.Errorf("harness config does not parse: %v", err)
	}
	ctx := &ipamcontext.IPAMContext{
		Client:            WrapKube(w.Kube, w.In),
		GalaxyClient:      WrapGalaxy(w.Galaxy, w.In),
		ExtClient:         w.Ext,
		DynamicClient:     w.Dyn,
		PodLister:         corelister.NewPodLister(w.PodIdx),
		NodeLister:        corelister.NewNodeLister(w.NodeIdx),
		StatefulSetLister: appslister.NewStatefulSetLister(w.StsIdx),
		DeploymentLister:  appslister.NewDeploymentLister(w.DpIdx),
		PoolLister:        galaxylisterpkg.NewPoolLister(w.PoolIdx),
		ExtensionLister:   extlister.NewCustomResourceDefinitionLister(w.CrdIdx),
		FIPInformer:       &fipInformerGetter{w: w},
	}
	p, err := schedulerplugin.NewFloatingIPPlugin(schedulerplugin.Conf{FloatingIPs: pools, ResyncInterval: 1000}, ctx)
	if err != nil {
		return err
	}
	if w.Provider != nil {
		p.VerifSetCloudProvider(w.Provider)
	}
	w.Plugin = p
	in := w.In
	p.VerifWrapIPAM(func(i floatingip.IPAM) floatingip.IPAM { return &yieldIPAM{IPAM: i, in: in} })
	return p.Init()
}

// SetConfigMap writes the floatingip ConfigMap in API truth.
func (w *World) SetConfigMap(text string) {
	cm := &corev1.ConfigMap{ObjectMeta: metav1.ObjectMeta{Name: CMName, Namespace: CMNamespace},
		Data: map[string]string{CMKey: text}}
	if _, err := w.Kube.CoreV1().ConfigMaps(CMNamespace).Update(context.TODO(), cm, metav1.UpdateOptions{}); err != nil {
		_, _ = w.Kube.CoreV1().ConfigMaps(CMNamespace).Create(context.TODO(), cm, metav1.CreateOptions{})
	}
}

// ---- truth mutation helpers (harness side, not counted as galaxy calls) ----

func (w *World) queue(e Event) {
	w.mu.Lock()
	w.Events[e.Res] = append(w.Events[e.Res], e)
	w.mu.Unlock()
}

// AddNode adds a node to truth and, immediately, to the node lister (nodes are static in the histories).
func (w *World) AddNode(name, ip string) corev1.Node {
	n := corev1.Node{ObjectMeta: metav1.ObjectMeta{Name: name}}
	if ip != "" {
		n.Status.Addresses = []corev1.NodeAddress{{Type: corev1.NodeInternalIP, Address: ip}}
	}
	_, _ = w.Kube.CoreV1().Nodes().Create(context.TODO(), n.DeepCopy(), metav1.CreateOptions{})
	_ = w.NodeIdx.Add(n.DeepCopy())
	return n
}

// NewPod builds a pod object wanting a floating IP.
func NewPod(ns, name, uid string, owner *metav1.OwnerReference, ann map[string]string) *corev1.Pod {
	q := resource.NewQuantity(1, resource.DecimalSI)
	p := &corev1.Pod{
		ObjectMeta: metav1.ObjectMeta{Namespace: ns, Name: name, UID: types.UID(uid), Annotations: map[string]string{}},
		Spec: corev1.PodSpec{Containers: []corev1.Container{{Name: "c", Resources: corev1.ResourceRequirements{
			Requests: corev1.ResourceList{corev1.ResourceName(constant.ResourceName): *q}}}}},
		Status: corev1.PodStatus{Phase: corev1.PodPending},
	}
	for k, v := range ann {
		p.Annotations[k] = v
	}
	if owner != nil {
		p.OwnerReferences = []metav1.OwnerReference{*owner}
	}
	return p
}

// CreatePod creates a pod in truth and queues the add event.
func (w *World) CreatePod(p *corev1.Pod) error {
	if _, err := w.Kube.CoreV1().Pods(p.Namespace).Create(context.TODO(), p.DeepCopy(), metav1.CreateOptions{}); err != nil {
		return err
	}
	w.queue(Event{Res: "pods", Kind: Add, New: p.DeepCopy()})
	return nil
}

// GetPod reads a pod from truth.
func (w *World) GetPod(ns, name string) *corev1.Pod {
	obj, err := w.Kube.Tracker().Get(corev1.SchemeGroupVersion.WithResource("pods"), ns, name)
	if err != nil {
		return nil
	}
	return obj.(*corev1.Pod).DeepCopy()
}

// ListPods lists pods in truth, sorted by namespace/name.
func (w *World) ListPods() []*corev1.Pod {
	l, _ := w.Kube.CoreV1().Pods("").List(context.TODO(), metav1.ListOptions{})
	var out []*corev1.Pod
	for i := range l.Items {
		out = append(out, l.Items[i].DeepCopy())
	}
	sort.Slice(out, func(i, j int) bool {
		return out[i].Namespace+"/"+out[i].Name < out[j].Namespace+"/"+out[j].Name
	})
	return out
}

// UpdatePod mutates a pod in truth and queues the update event.
func (w *World) UpdatePod(ns, name string, f func(p *corev1.Pod)) bool {
	w.delMu.Lock()
	defer w.delMu.Unlock()
	old := w.GetPod(ns, name)
	if old == nil {
		return false
	}
	np := old.DeepCopy()
	f(np)
	if err := w.Kube.Tracker().Update(corev1.SchemeGroupVersion.WithResource("pods"), np, ns); err != nil {
		return false
	}
	w.queue(Event{Res: "pods", Kind: Update, Old: old, New: np.DeepCopy()})
	return true
}

// DeletePod removes a pod from truth and queues the delete event.
func (w *World) DeletePod(ns, name string) bool {
	return w.DeletePodUID(ns, name) != ""
}

// DeletePodUID removes the pod that currently has the name and returns its UID ("" if none). Serialised so
// that concurrent callers each delete (and report) a distinct incarnation.
func (w *World) DeletePodUID(ns, name string) string {
	w.delMu.Lock()
	defer w.delMu.Unlock()
	old := w.GetPod(ns, name)
	if old == nil {
		return ""
	}
	if err := w.Kube.Tracker().Delete(corev1.SchemeGroupVersion.WithResource("pods"), ns, name); err != nil {
		return ""
	}
	w.queue(Event{Res: "pods", Kind: Delete, Old: old})
	return string(old.UID)
}

// SetStatefulSet creates/updates (replicas>=0) or deletes (replicas<0) a statefulset in truth, queues the event.
func (w *World) SetStatefulSet(ns, name string, replicas int32) {
	if replicas < 0 {
		w.queue(Event{Res: "sts", Kind: Delete, Old: &appsv1.StatefulSet{ObjectMeta: metav1.ObjectMeta{Namespace: ns, Name: name}}})
		return
	}
	r := replicas
	w.queue(Event{Res: "sts", Kind: Update, New: &appsv1.StatefulSet{ObjectMeta: metav1.ObjectMeta{Namespace: ns, Name: name},
		Spec: appsv1.StatefulSetSpec{Replicas: &r}}})
}

// SetDeployment creates/updates or deletes (replicas<0) a deployment, queues the event.
func (w *World) SetDeployment(ns, name string, replicas int32) {
	if replicas < 0 {
		w.queue(Event{Res: "dp", Kind: Delete, Old: &appsv1.Deployment{ObjectMeta: metav1.ObjectMeta{Namespace: ns, Name: name}}})
		return
	}
	r := replicas
	w.queue(Event{Res: "dp", Kind: Update, New: &appsv1.Deployment{ObjectMeta: metav1.ObjectMeta{Namespace: ns, Name: name},
		Spec: appsv1.DeploymentSpec{Replicas: &r}}})
}

// SetTApp creates/updates or deletes (replicas<0) a TApp custom resource in the dynamic client.
func (w *World) SetTApp(ns, name string, replicas int64) {
	ri := w.Dyn.Resource(TAppGVR).Namespace(ns)
	if replicas < 0 {
		_ = ri.Delete(context.TODO(), name, metav1.DeleteOptions{})
		return
	}
	u := &unstructured.Unstructured{Object: map[string]interface{}{
		"apiVersion": TAppGroup + "/v1alpha1", "kind": TAppKind,
		"metadata": map[string]interface{}{"name": name, "namespace": ns},
		"spec":     map[string]interface{}{"replicas": replicas},
	}}
	if _, err := ri.Update(context.TODO(), u, metav1.UpdateOptions{}); err != nil {
		_, _ = ri.Create(context.TODO(), u, metav1.CreateOptions{})
	}
}

// SetPool writes a Pool object straight into truth + queues the lister event (as kubectl would).
func (w *World) SetPool(name string, size int, del bool) {
	if del {
		_ = w.Galaxy.GalaxyV1alpha1().Pools("kube-system").Delete(context.TODO(), name, metav1.DeleteOptions{})
		w.queue(Event{Res: "pools", Kind: Delete, Old: &galaxyv1alpha1.Pool{ObjectMeta: metav1.ObjectMeta{Namespace: "kube-system", Name: name}}})
		return
	}
	p := &galaxyv1alpha1.Pool{ObjectMeta: metav1.ObjectMeta{Namespace: "kube-system", Name: name}, Size: size}
	if _, err := w.Galaxy.GalaxyV1alpha1().Pools("kube-system").Update(context.TODO(), p, metav1.UpdateOptions{}); err != nil {
		_, _ = w.Galaxy.GalaxyV1alpha1().Pools("kube-system").Create(context.TODO(), p, metav1.CreateOptions{})
	}
	w.queue(Event{Res: "pools", Kind: Update, New: p.DeepCopy()})
}

// SyncPoolsFromTruth queues lister events so that the pool lister converges to truth (after HTTP pool calls).
func (w *World) SyncPoolsFromTruth() {
	l, _ := w.Galaxy.GalaxyV1alpha1().Pools("kube-system").List(context.TODO(), metav1.ListOptions{})
	seen := map[string]bool{}
	for i := range l.Items {
		p := l.Items[i].DeepCopy()
		if p.Namespace == "" {
			p.Namespace = "kube-system"
		}
		seen[p.Name] = true
		w.queue(Event{Res: "pools", Kind: Update, New: p})
	}
	for _, o := range w.PoolIdx.List() {
		p := o.(*galaxyv1alpha1.Pool)
		if !seen[p.Name] {
			w.queue(Event{Res: "pools", Kind: Delete, Old: p.DeepCopy()})
		}
	}
}

// ReserveFIP creates an admin-reserved (labelled) FloatingIP object in truth and queues its watch event.
func (w *World) ReserveFIP(ip, key string) error {
	f := &galaxyv1alpha1.FloatingIP{
		TypeMeta:   metav1.TypeMeta{Kind: constant.ResourceKind, APIVersion: constant.ApiVersion},
		ObjectMeta: metav1.ObjectMeta{Name: ip, Labels: map[string]string{constant.ReserveFIPLabel: ""}},
		Spec:       galaxyv1alpha1.FloatingIPSpec{Key: key, Policy: constant.ReleasePolicyNever, UpdateTime: metav1.NewTime(time.Now())},
	}
	if _, err := w.Galaxy.GalaxyV1alpha1().FloatingIPs().Create(context.TODO(), f, metav1.CreateOptions{}); err != nil {
		return err
	}
	w.queue(Event{Res: "fips", Kind: Add, New: f.DeepCopy()})
	return nil
}

// UnreserveFIP deletes an admin-reserved FloatingIP object and queues its watch event.
func (w *World) UnreserveFIP(ip string) error {
	f, err := w.Galaxy.GalaxyV1alpha1().FloatingIPs().Get(context.TODO(), ip, metav1.GetOptions{})
	if err != nil {
		return err
	}
	if _, ok := f.Labels[constant.ReserveFIPLabel]; !ok {
		return fmt.Errorf("%s is not a reserved object", ip)
	}
	if err := w.Galaxy.GalaxyV1alpha1().FloatingIPs().Delete(context.TODO(), ip, metav1.DeleteOptions{}); err != nil {
		return err
	}
	w.queue(Event{Res: "fips", Kind: Delete, Old: f.DeepCopy()})
	return nil
}

// Pending returns the number of undelivered events of a resource.
func (w *World) Pending(res string) int {
	w.mu.Lock()
	defer w.mu.Unlock()
	return len(w.Events[res])
}

// PendingAll returns the number of undelivered events.
func (w *World) PendingAll() int {
	w.mu.Lock()
	defer w.mu.Unlock()
	n := 0
	for _, q := range w.Events {
		n += len(q)
	}
	return n
}

// PeekEvent returns the next undelivered event of a resource.
func (w *World) PeekEvent(res string) (Event, bool) {
	w.mu.Lock()
	defer w.mu.Unlock()
	if len(w.Events[res]) == 0 {
		return Event{}, false
	}
	return w.Events[res][0], true
}

// Deliver delivers the next event of a resource to the informer cache and the plugin's handler.
// If drop is true the cache is updated but the handler is not called (a lost event).
func (w *World) Deliver(res string, drop bool) (Event, bool) {
	w.mu.Lock()
	q := w.Events[res]
	if len(q) == 0 {
		w.mu.Unlock()
		return Event{}, false
	}
	e := q[0]
	w.Events[res] = q[1:]
	w.mu.Unlock()
	switch res {
	case "pods":
		switch e.Kind {
		case Add:
			_ = w.PodIdx.Add(e.New)
			if !drop {
				_ = w.Plugin.AddPod(e.New.(*corev1.Pod))
			}
		case Update:
			_ = w.PodIdx.Update(e.New)
			if !drop {
				_ = w.Plugin.UpdatePod(e.Old.(*corev1.Pod), e.New.(*corev1.Pod))
			}
		case Delete:
			_ = w.PodIdx.Delete(e.Old)
			if !drop {
				_ = w.Plugin.DeletePod(e.Old.(*corev1.Pod))
			}
		}
		if !w.RealLoop {
			w.DrainReleaseChan()
		}
	case "sts":
		applyIdx(w.StsIdx, e)
	case "dp":
		applyIdx(w.DpIdx, e)
	case "pools":
		applyIdx(w.PoolIdx, e)
	case "fips":
		if w.fipHandler != nil && !drop {
			if e.Kind == Add {
				w.fipHandler.OnAdd(e.New)
			} else if e.Kind == Delete {
				w.fipHandler.OnDelete(e.Old)
			}
		}
	}
	return e, true
}

func applyIdx(idx cache.Indexer, e Event) {
	if e.Kind == Delete {
		_ = idx.Delete(e.Old)
	} else {
		_ = idx.Update(e.New)
	}
}

// DrainReleaseChan moves everything the plugin queued for unbinding into the harness-owned queue.
func (w *World) DrainReleaseChan() {
	for {
		pod, ok := w.Plugin.VerifTakeReleaseEvent()
		if !ok {
			return
		}
		w.relMu.Lock()
		w.Releases = append(w.Releases, ReleaseEvent{Pod: pod})
		w.relMu.Unlock()
	}
}

// HandleRelease handles the idx-th queued release event the way the plugin's loop does (unbind, retry ≤ 3 times).
// Returns the error of the unbind call.
func (w *World) HandleRelease(idx int) (error, bool) {
	w.relMu.Lock()
	if idx < 0 || idx >= len(w.Releases) {
		w.relMu.Unlock()
		return nil, false
	}
	ev := w.Releases[idx]
	w.Releases = append(w.Releases[:idx:idx], w.Releases[idx+1:]...)
	w.relMu.Unlock()
	err := w.Plugin.VerifUnbind(ev.Pod)
	if err != nil {
		ev.Retry++
		if ev.Retry <= 3 {
			w.relMu.Lock()
			w.Releases = append(w.Releases, ev)
			w.relMu.Unlock()
		}
	}
	return err, true
}

// SyncListersToTruth makes every informer cache equal to API truth without calling handlers (what a fresh
// informer's initial list does after a restart) and drops the undelivered events of those resources.
func (w *World) SyncListersToTruth() {
	w.mu.Lock()
	for _, r := range []string{"pods", "sts", "dp", "pools"} {
		evs := w.Events[r]
		w.Events[r] = nil
		// sts/dp/pools truth lives only in the event stream: apply it
		if r != "pods" {
			for _, e := range evs {
				switch r {
				case "sts":
					applyIdx(w.StsIdx, e)
				case "dp":
					applyIdx(w.DpIdx, e)
				case "pools":
					applyIdx(w.PoolIdx, e)
				}
			}
		}
	}
	w.mu.Unlock()
	for _, o := range w.PodIdx.List() {
		_ = w.PodIdx.Delete(o)
	}
	for _, p := range w.ListPods() {
		_ = w.PodIdx.Add(p)
	}
}

// Restart emulates a process restart: the plugin instance with its queue and caches is discarded, a new one is
// built over the same API truth; fresh informers list truth; pending reservation events are re-listed.
func (w *World) Restart() error {
	w.Releases = nil
	w.mu.Lock()
	w.Events["fips"] = nil // ConfigurePool lists the store, which includes reserved objects
	w.mu.Unlock()
	w.SyncListersToTruth()
	w.Restarts++
	return w.StartPlugin()
}

// ---- observation helpers ----

// DumpEntry is one IP of the IPAM dump.
type DumpEntry struct {
	IP       string
	Key      string
	Policy   uint16
	NodeName string
	PodUid   string
	Reserved bool   // carries the reserved label in memory
	Pool     string // subnet string of the pool
}

// Dump returns the in-memory table of the running plugin: ip -> entry (allocated and unallocated).
func (w *World) Dump() map[string]DumpEntry {
	out := map[string]DumpEntry{}
	fips, _ := w.Plugin.GetIpam().ByPrefix("")
	for _, f := range fips {
		_, res := f.Labels[constant.ReserveFIPLabel]
		out[f.FloatingIP.IP.String()] = DumpEntry{IP: f.FloatingIP.IP.String(), Key: f.Key, Policy: f.Policy,
			NodeName: f.NodeName, PodUid: f.PodUid, Reserved: res}
	}
	return out
}

// StoreEntry is one persisted FloatingIP object.
type StoreEntry struct {
	IP       string
	Key      string
	Policy   uint16
	NodeName string
	PodUid   string
	Reserved bool
}

// Store lists the FloatingIP objects in API truth.
func (w *World) Store() map[string]StoreEntry {
	out := map[string]StoreEntry{}
	l, _ := w.Galaxy.GalaxyV1alpha1().FloatingIPs().List(context.TODO(), metav1.ListOptions{})
	for _, f := range l.Items {
		var attr floatingip.Attr
		if f.Spec.Attribute != "" {
			_ = json.Unmarshal([]byte(f.Spec.Attribute), &attr)
		}
		_, res := f.Labels[constant.ReserveFIPLabel]
		out[f.Name] = StoreEntry{IP: f.Name, Key: f.Spec.Key, Policy: uint16(f.Spec.Policy), NodeName: attr.NodeName,
			PodUid: attr.Uid, Reserved: res}
	}
	return out
}

// PendingFIPEvents returns the IPs that have an undelivered reservation add / delete event.
func (w *World) PendingFIPEvents() (adds, dels map[string]bool) {
	adds, dels = map[string]bool{}, map[string]bool{}
	w.mu.Lock()
	defer w.mu.Unlock()
	for _, e := range w.Events["fips"] {
		if e.Kind == Add {
			adds[e.New.(*galaxyv1alpha1.FloatingIP).Name] = true
		} else if e.Kind == Delete {
			dels[e.Old.(*galaxyv1alpha1.FloatingIP).Name] = true
		}
	}
	return
}

// Bindings returns a copy of the binding log.
func (w *World) Bindings() []Binding {
	w.mu.Lock()
	defer w.mu.Unlock()
	return append([]Binding(nil), w.BindLog...)
}

// Live reports whether a pod object counts as alive.
func Live(p *corev1.Pod) bool {
	return p != nil && p.Status.Phase != corev1.PodSucceeded && p.Status.Phase != corev1.PodFailed
}

// KeyString is a helper for witness output.
func KeyString(p *corev1.Pod) string {
	owner := "none"
	if len(p.OwnerReferences) > 0 {
		owner = p.OwnerReferences[0].Kind + "/" + p.OwnerReferences[0].Name
	}
	return strings.Join([]string{p.Namespace, p.Name, string(p.UID), owner}, ":")
}

// Clone deep-copies the cluster (API truth, informer caches, undelivered events, release queue, logs) into a new
// World and starts a fresh plugin instance over the copy (the plugin's memory is rebuilt from the store).
func (w *World) Clone() (*World, error) {
	n := NewWorld(w.WithTApp)
	n.ConfText = w.ConfText
	n.uidSeq = w.uidSeq
	n.Restarts = w.Restarts
	ctx := context.TODO()
	// core objects
	pods, _ := w.Kube.CoreV1().Pods("").List(ctx, metav1.ListOptions{})
	for i := range pods.Items {
		_ = n.Kube.Tracker().Add(pods.Items[i].DeepCopy())
	}
	nodes, _ := w.Kube.CoreV1().Nodes().List(ctx, metav1.ListOptions{})
	for i := range nodes.Items {
		_ = n.Kube.Tracker().Add(nodes.Items[i].DeepCopy())
	}
	cms, _ := w.Kube.CoreV1().ConfigMaps("").List(ctx, metav1.ListOptions{})
	for i := range cms.Items {
		_ = n.Kube.Tracker().Add(cms.Items[i].DeepCopy())
	}
	fips, _ := w.Galaxy.GalaxyV1alpha1().FloatingIPs().List(ctx, metav1.ListOptions{})
	for i := range fips.Items {
		_ = n.Galaxy.Tracker().Add(fips.Items[i].DeepCopy())
	}
	pools, _ := w.Galaxy.GalaxyV1alpha1().Pools("").List(ctx, metav1.ListOptions{})
	for i := range pools.Items {
		_ = n.Galaxy.Tracker().Add(pools.Items[i].DeepCopy())
	}
	if w.WithTApp {
		tapps, err := w.Dyn.Resource(TAppGVR).Namespace("").List(ctx, metav1.ListOptions{})
		if err == nil {
			for i := range tapps.Items {
				_, _ = n.Dyn.Resource(TAppGVR).Namespace(tapps.Items[i].GetNamespace()).Create(ctx, tapps.Items[i].DeepCopy(), metav1.CreateOptions{})
			}
		}
	}
	copyIdx := func(dst, src cache.Indexer) {
		for _, o := range src.List() {
			_ = dst.Add(o.(runtime.Object).DeepCopyObject())
		}
	}
	copyIdx(n.PodIdx, w.PodIdx)
	copyIdx(n.NodeIdx, w.NodeIdx)
	copyIdx(n.StsIdx, w.StsIdx)
	copyIdx(n.DpIdx, w.DpIdx)
	copyIdx(n.PoolIdx, w.PoolIdx)
	w.mu.Lock()
	for r, q := range w.Events {
		n.Events[r] = append([]Event(nil), q...)
	}
	n.BindLog = append([]Binding(nil), w.BindLog...)
	w.mu.Unlock()
	for _, r := range w.Releases {
		n.Releases = append(n.Releases, ReleaseEvent{Pod: r.Pod.DeepCopy(), Retry: r.Retry})
	}
	if w.Provider != nil {
		n.Provider = &Provider{Calls: w.Provider.Snapshot()}
		n.Provider.n = len(n.Provider.Calls)
	}
	if err := n.StartPlugin(); err != nil {
		return nil, err
	}
	return n, nil
}

// BeginOp installs an injection plan for API calls and provider calls of the next operation.
func (w *World) BeginOp(plan map[int]InjectKind, provFail map[int]bool) {
	w.In.BeginOp(plan)
	if w.Provider != nil {
		w.Provider.beginOp(provFail)
	}
}

// DumpWithDups is Dump plus the IPs that the plugin listed more than once (an IP in both tables).
func (w *World) DumpWithDups() (map[string]DumpEntry, []string) {
	out := map[string]DumpEntry{}
	var dups []string
	fips, _ := w.Plugin.GetIpam().ByPrefix("")
	for _, f := range fips {
		ip := f.FloatingIP.IP.String()
		if _, ok := out[ip]; ok {
			dups = append(dups, ip)
		}
		_, res := f.Labels[constant.ReserveFIPLabel]
		e := DumpEntry{IP: ip, Key: f.Key, Policy: f.Policy, NodeName: f.NodeName, PodUid: f.PodUid, Reserved: res}
		if old, ok := out[ip]; ok && old.Key != "" {
			continue // keep the allocated view
		}
		out[ip] = e
	}
	return out, dups
}

// PoolSizeTruth returns the size of a Pool object in API truth.
func (w *World) PoolSizeTruth(name string) (int, bool) {
	p, err := w.Galaxy.GalaxyV1alpha1().Pools("kube-system").Get(context.TODO(), name, metav1.GetOptions{})
	if err != nil {
		return 0, false
	}
	return p.Size, true
}
