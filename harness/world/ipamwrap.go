package world

import (
	"net"

	"k8s.io/apimachinery/pkg/util/sets"
	"tkestack.io/galaxy/pkg/ipam/floatingip"
	"tkestack.io/galaxy/pkg/utils/nets"
)

// yieldIPAM delegates every call of the plugin to the real IPAM and tells the injector before and after it, so that
// the engines can suspend an operation between two IPAM calls (interleavings finer than API-server calls: e.g. between
// "count the app's IPs" and "release this one"). It adds no behaviour and holds no lock.
type yieldIPAM struct {
	floatingip.IPAM
	in *Injector
}

func (y *yieldIPAM) around(method string, f func()) {
	if h := y.in.IPAMYield; h != nil {
		h(method, false)
		f()
		h(method, true)
		return
	}
	f()
}

func (y *yieldIPAM) ReleaseIPs(m map[string]string) (a, b map[string]string, err error) {
	y.around("ReleaseIPs", func() { a, b, err = y.IPAM.ReleaseIPs(m) })
	return
}

func (y *yieldIPAM) AllocateSpecificIP(k string, ip net.IP, attr floatingip.Attr) (err error) {
	y.around("AllocateSpecificIP", func() { err = y.IPAM.AllocateSpecificIP(k, ip, attr) })
	return
}

func (y *yieldIPAM) AllocateInSubnet(k string, n *net.IPNet, attr floatingip.Attr) (ip net.IP, err error) {
	y.around("AllocateInSubnet", func() { ip, err = y.IPAM.AllocateInSubnet(k, n, attr) })
	return
}

func (y *yieldIPAM) AllocateInSubnetsAndIPRange(k string, n *net.IPNet, r [][]nets.IPRange, attr floatingip.Attr) (ips []net.IP, err error) {
	y.around("AllocateInSubnetsAndIPRange", func() { ips, err = y.IPAM.AllocateInSubnetsAndIPRange(k, n, r, attr) })
	return
}

func (y *yieldIPAM) AllocateInSubnetWithKey(oldK, newK, subnet string, attr floatingip.Attr) (err error) {
	y.around("AllocateInSubnetWithKey", func() { err = y.IPAM.AllocateInSubnetWithKey(oldK, newK, subnet, attr) })
	return
}

func (y *yieldIPAM) ReserveIP(oldK, newK string, attr floatingip.Attr) (ok bool, err error) {
	y.around("ReserveIP", func() { ok, err = y.IPAM.ReserveIP(oldK, newK, attr) })
	return
}

func (y *yieldIPAM) UpdateAttr(k string, ip net.IP, attr floatingip.Attr) (err error) {
	y.around("UpdateAttr", func() { err = y.IPAM.UpdateAttr(k, ip, attr) })
	return
}

func (y *yieldIPAM) Release(k string, ip net.IP) (err error) {
	y.around("Release", func() { err = y.IPAM.Release(k, ip) })
	return
}

func (y *yieldIPAM) First(k string) (f *floatingip.FloatingIPInfo, err error) {
	y.around("First", func() { f, err = y.IPAM.First(k) })
	return
}

func (y *yieldIPAM) ByIP(ip net.IP) (f floatingip.FloatingIP, err error) {
	y.around("ByIP", func() { f, err = y.IPAM.ByIP(ip) })
	return
}

func (y *yieldIPAM) ByPrefix(k string) (f []*floatingip.FloatingIPInfo, err error) {
	y.around("ByPrefix", func() { f, err = y.IPAM.ByPrefix(k) })
	return
}

func (y *yieldIPAM) ByKeyAndIPRanges(k string, r [][]nets.IPRange) (f []*floatingip.FloatingIPInfo, err error) {
	y.around("ByKeyAndIPRanges", func() { f, err = y.IPAM.ByKeyAndIPRanges(k, r) })
	return
}

func (y *yieldIPAM) NodeSubnetsByIPRanges(r [][]nets.IPRange) (s sets.String, err error) {
	y.around("NodeSubnetsByIPRanges", func() { s, err = y.IPAM.NodeSubnetsByIPRanges(r) })
	return
}

func (y *yieldIPAM) NodeSubnet(ip net.IP) (n *net.IPNet) {
	y.around("NodeSubnet", func() { n = y.IPAM.NodeSubnet(ip) })
	return
}
