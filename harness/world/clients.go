// Package world is the simulated cluster the real galaxy-ipam plugin is run against: API truth (fake clientset
// trackers), informer caches with harness-controlled lag, an event queue, and delegating client wrappers that
// number, log, fail, crash and delay every API call the plugin makes.
package world

import (
	"context"
	"fmt"
	"sync"
	"sync/atomic"

	corev1 "k8s.io/api/core/v1"
	apierrors "k8s.io/apimachinery/pkg/api/errors"
	metav1 "k8s.io/apimachinery/pkg/apis/meta/v1"
	"k8s.io/apimachinery/pkg/runtime/schema"
	"k8s.io/client-go/kubernetes"
	typedcorev1 "k8s.io/client-go/kubernetes/typed/core/v1"
	galaxyv1alpha1 "tkestack.io/galaxy/pkg/ipam/apis/galaxy/v1alpha1"
	crdclient "tkestack.io/galaxy/pkg/ipam/client/clientset/versioned"
	typedgalaxy "tkestack.io/galaxy/pkg/ipam/client/clientset/versioned/typed/galaxy/v1alpha1"
)

// Call describes one API call made by galaxy through the wrappers.
type Call struct {
	Seq      int64  // global sequence number
	OpSeq    int    // 1-based index within the current operation
	Verb     string // get list create update delete bind
	Resource string // floatingips pools pods nodes configmaps
	Name     string
}

func (c Call) String() string {
	return fmt.Sprintf("#%d.%d %s %s/%s", c.Seq, c.OpSeq, c.Verb, c.Resource, c.Name)
}

// InjectKind is the kind of fault injected at a call.
type InjectKind int

const (
	None        InjectKind = iota
	FailAt                 // return an error without applying
	FailAfter              // apply, then return an error (lost reply)
	CrashBefore            // process stops right before the call
	CrashAfter             // process stops right after the call was applied
)

func (k InjectKind) String() string {
	return [...]string{"none", "fail", "fail-after", "crash-before", "crash-after"}[k]
}

// Crash is the panic value used to emulate a process crash at an API-call boundary.
type Crash struct{ At Call }

// Injector numbers calls and injects faults. Safe for concurrent use.
type Injector struct {
	mu      sync.Mutex
	seq     int64
	opSeq   int
	plan    map[int]InjectKind // OpSeq -> kind, for the current operation
	Hit     []string           // injections that were actually hit in the current operation
	Log     []Call             // calls of the current operation
	KeepLog bool
	// Yield, if set, is called before and after every delegated call (concurrent engine); it must not hold locks.
	Yield func(c Call, after bool)
	// IPAMYield, if set, is called before and after every call the plugin makes on its IPAM (see ipamwrap.go).
	IPAMYield func(method string, after bool)
	// Filter restricts injection to matching calls (nil = all)
	total int64
}

// BeginOp resets per-operation numbering and installs a plan.
func (in *Injector) BeginOp(plan map[int]InjectKind) {
	in.mu.Lock()
	in.opSeq = 0
	in.plan = plan
	in.Hit = nil
	in.Log = nil
	in.mu.Unlock()
}

// EndOp returns the number of calls the operation made and clears the plan.
func (in *Injector) EndOp() int {
	in.mu.Lock()
	defer in.mu.Unlock()
	n := in.opSeq
	in.plan = nil
	return n
}

// Total returns the total number of calls seen.
func (in *Injector) Total() int64 { return atomic.LoadInt64(&in.total) }

func (in *Injector) before(verb, resource, name string) (Call, InjectKind) {
	in.mu.Lock()
	in.seq++
	in.opSeq++
	c := Call{Seq: in.seq, OpSeq: in.opSeq, Verb: verb, Resource: resource, Name: name}
	k := None
	if in.plan != nil {
		k = in.plan[in.opSeq]
	}
	if in.KeepLog {
		in.Log = append(in.Log, c)
	}
	if k != None {
		in.Hit = append(in.Hit, fmt.Sprintf("%s@%s", k, c))
	}
	y := in.Yield
	in.mu.Unlock()
	atomic.AddInt64(&in.total, 1)
	if y != nil {
		y(c, false)
	}
	return c, k
}

func injectedErr(c Call) error {
	return apierrors.NewInternalError(fmt.Errorf("injected fault at %s", c))
}

// do wraps one delegated call.
func (in *Injector) do(verb, resource, name string, f func() error) error {
	c, k := in.before(verb, resource, name)
	switch k {
	case FailAt:
		return injectedErr(c)
	case CrashBefore:
		panic(Crash{At: c})
	}
	err := f()
	if y := in.Yield; y != nil {
		y(c, true)
	}
	switch k {
	case FailAfter:
		return injectedErr(c)
	case CrashAfter:
		panic(Crash{At: c})
	}
	return err
}

// ---- galaxy clientset wrapper ----

type galaxyClient struct {
	crdclient.Interface
	in *Injector
}

// WrapGalaxy wraps a galaxy clientset.
func WrapGalaxy(c crdclient.Interface, in *Injector) crdclient.Interface {
	return &galaxyClient{Interface: c, in: in}
}

func (g *galaxyClient) GalaxyV1alpha1() typedgalaxy.GalaxyV1alpha1Interface {
	return &galaxyV1{GalaxyV1alpha1Interface: g.Interface.GalaxyV1alpha1(), in: g.in}
}

type galaxyV1 struct {
	typedgalaxy.GalaxyV1alpha1Interface
	in *Injector
}

func (g *galaxyV1) FloatingIPs() typedgalaxy.FloatingIPInterface {
	return &fipClient{FloatingIPInterface: g.GalaxyV1alpha1Interface.FloatingIPs(), in: g.in}
}

func (g *galaxyV1) Pools(ns string) typedgalaxy.PoolInterface {
	return &poolClient{PoolInterface: g.GalaxyV1alpha1Interface.Pools(ns), in: g.in}
}

type fipClient struct {
	typedgalaxy.FloatingIPInterface
	in *Injector
}

func (f *fipClient) Create(ctx context.Context, o *galaxyv1alpha1.FloatingIP, opts metav1.CreateOptions) (
	res *galaxyv1alpha1.FloatingIP, err error) {
	err = f.in.do("create", "floatingips", o.Name, func() error {
		var e error
		res, e = f.FloatingIPInterface.Create(ctx, o, opts)
		return e
	})
	if err != nil {
		res = nil
	}
	return
}

func (f *fipClient) Update(ctx context.Context, o *galaxyv1alpha1.FloatingIP, opts metav1.UpdateOptions) (
	res *galaxyv1alpha1.FloatingIP, err error) {
	err = f.in.do("update", "floatingips", o.Name, func() error {
		var e error
		res, e = f.FloatingIPInterface.Update(ctx, o, opts)
		return e
	})
	if err != nil {
		res = nil
	}
	return
}

func (f *fipClient) Delete(ctx context.Context, name string, opts metav1.DeleteOptions) error {
	return f.in.do("delete", "floatingips", name, func() error {
		return f.FloatingIPInterface.Delete(ctx, name, opts)
	})
}

func (f *fipClient) Get(ctx context.Context, name string, opts metav1.GetOptions) (res *galaxyv1alpha1.FloatingIP,
	err error) {
	err = f.in.do("get", "floatingips", name, func() error {
		var e error
		res, e = f.FloatingIPInterface.Get(ctx, name, opts)
		return e
	})
	if err != nil {
		res = nil
	}
	return
}

func (f *fipClient) List(ctx context.Context, opts metav1.ListOptions) (res *galaxyv1alpha1.FloatingIPList, err error) {
	err = f.in.do("list", "floatingips", "", func() error {
		var e error
		res, e = f.FloatingIPInterface.List(ctx, opts)
		return e
	})
	if err != nil {
		res = nil
	}
	return
}

type poolClient struct {
	typedgalaxy.PoolInterface
	in *Injector
}

func (f *poolClient) Create(ctx context.Context, o *galaxyv1alpha1.Pool, opts metav1.CreateOptions) (
	res *galaxyv1alpha1.Pool, err error) {
	err = f.in.do("create", "pools", o.Name, func() error {
		var e error
		res, e = f.PoolInterface.Create(ctx, o, opts)
		return e
	})
	return
}

func (f *poolClient) Update(ctx context.Context, o *galaxyv1alpha1.Pool, opts metav1.UpdateOptions) (
	res *galaxyv1alpha1.Pool, err error) {
	err = f.in.do("update", "pools", o.Name, func() error {
		var e error
		res, e = f.PoolInterface.Update(ctx, o, opts)
		return e
	})
	return
}

func (f *poolClient) Get(ctx context.Context, name string, opts metav1.GetOptions) (res *galaxyv1alpha1.Pool, err error) {
	err = f.in.do("get", "pools", name, func() error {
		var e error
		res, e = f.PoolInterface.Get(ctx, name, opts)
		return e
	})
	return
}

func (f *poolClient) Delete(ctx context.Context, name string, opts metav1.DeleteOptions) error {
	return f.in.do("delete", "pools", name, func() error {
		return f.PoolInterface.Delete(ctx, name, opts)
	})
}

// ---- core clientset wrapper ----

type kubeClient struct {
	kubernetes.Interface
	in *Injector
}

// WrapKube wraps a core clientset.
func WrapKube(c kubernetes.Interface, in *Injector) kubernetes.Interface {
	return &kubeClient{Interface: c, in: in}
}

func (k *kubeClient) CoreV1() typedcorev1.CoreV1Interface {
	return &coreV1{CoreV1Interface: k.Interface.CoreV1(), in: k.in}
}

type coreV1 struct {
	typedcorev1.CoreV1Interface
	in *Injector
}

func (c *coreV1) Pods(ns string) typedcorev1.PodInterface {
	return &podClient{PodInterface: c.CoreV1Interface.Pods(ns), in: c.in, ns: ns}
}

func (c *coreV1) Nodes() typedcorev1.NodeInterface {
	return &nodeClient{NodeInterface: c.CoreV1Interface.Nodes(), in: c.in}
}

func (c *coreV1) ConfigMaps(ns string) typedcorev1.ConfigMapInterface {
	return &cmClient{ConfigMapInterface: c.CoreV1Interface.ConfigMaps(ns), in: c.in}
}

type podClient struct {
	typedcorev1.PodInterface
	in *Injector
	ns string
}

func (p *podClient) Get(ctx context.Context, name string, opts metav1.GetOptions) (res *corev1.Pod, err error) {
	err = p.in.do("get", "pods", p.ns+"/"+name, func() error {
		var e error
		res, e = p.PodInterface.Get(ctx, name, opts)
		return e
	})
	if err != nil {
		res = nil
	}
	return
}

func (p *podClient) Bind(ctx context.Context, b *corev1.Binding, opts metav1.CreateOptions) error {
	return p.in.do("bind", "pods", p.ns+"/"+b.Name, func() error {
		return p.PodInterface.Bind(ctx, b, opts)
	})
}

type nodeClient struct {
	typedcorev1.NodeInterface
	in *Injector
}

func (n *nodeClient) Get(ctx context.Context, name string, opts metav1.GetOptions) (res *corev1.Node, err error) {
	err = n.in.do("get", "nodes", name, func() error {
		var e error
		res, e = n.NodeInterface.Get(ctx, name, opts)
		return e
	})
	if err != nil {
		res = nil
	}
	return
}

type cmClient struct {
	typedcorev1.ConfigMapInterface
	in *Injector
}

func (c *cmClient) Get(ctx context.Context, name string, opts metav1.GetOptions) (res *corev1.ConfigMap, err error) {
	err = c.in.do("get", "configmaps", name, func() error {
		var e error
		res, e = c.ConfigMapInterface.Get(ctx, name, opts)
		return e
	})
	if err != nil {
		res = nil
	}
	return
}

var podGR = schema.GroupResource{Resource: "pods"}
