// Package hostports hands out the fixed host ports of the harness engines that open real sockets (cnisim, pmsim).
//
// Fixed host ports of the harness come from 10000-29999 (below ip_local_port_range) in blocks of 64. A block belongs
// to the process that holds an flock on its lock file under /verif/.build/hostport-blocks (released by the kernel
// when the process dies), so any number of concurrent invocations of this engine (./check C12, C14, C19 in parallel)
// and of pmsim draw from disjoint blocks. Every port is additionally bind-probed (TCP and UDP) right before it is handed out.
package hostports

import (
	"fmt"
	"net"
	"os"
	"path/filepath"
	"sync"
	"syscall"

	"verif/harness/evid"
)

const (
	PoolBase  = 10000
	BlockSize = 64
	Blocks    = (30000 - PoolBase) / BlockSize
)

// Allocator owns a growing set of port blocks.
type Allocator struct {
	mu       sync.Mutex
	blocks   []int      // owned block numbers
	locks    []*os.File // keep the flocks alive
	next     int        // cursor over owned ports
	reserved []int      // blocks handed out whole by Block()
	start    int        // where to start looking for a free block (spreads invocations over the pool)
}

// New creates an allocator that owns nothing yet.
func New() *Allocator {
	return &Allocator{start: (os.Getpid() * 7) % Blocks}
}

func blockDir() string {
	d := filepath.Join(evid.VerifDir, ".build", "hostport-blocks")
	if os.MkdirAll(d, 0777) != nil {
		d = filepath.Join(os.TempDir(), "verif-hostport-blocks")
		_ = os.MkdirAll(d, 0777)
	}
	return d
}

// grow acquires one more block; false if the whole pool is taken.
func (a *Allocator) grow() bool {
	dir := blockDir()
	for i := 0; i < Blocks; i++ {
		b := (a.start + i) % Blocks
		f, err := os.OpenFile(filepath.Join(dir, fmt.Sprintf("block-%03d.lock", b)), os.O_RDWR|os.O_CREATE, 0666)
		if err != nil {
			continue
		}
		if syscall.Flock(int(f.Fd()), syscall.LOCK_EX|syscall.LOCK_NB) != nil {
			f.Close()
			continue
		}
		a.blocks, a.locks = append(a.blocks, b), append(a.locks, f)
		a.start = b + 1
		return true
	}
	return false
}

// ProbeFree reports whether the port can be bound for TCP and UDP right now.
func ProbeFree(port int) bool {
	l, err := net.Listen("tcp", fmt.Sprintf(":%d", port))
	if err != nil {
		return false
	}
	l.Close()
	u, err := net.ListenUDP("udp", &net.UDPAddr{Port: port})
	if err != nil {
		return false
	}
	u.Close()
	return true
}

// Take returns a port of an owned block that is free for TCP and UDP right now (0 if none can be found). Ports are
// handed out round-robin; a new block is acquired whenever the cursor has gone through everything owned so far.
func (a *Allocator) Take() int32 {
	a.mu.Lock()
	defer a.mu.Unlock()
	for try := 0; try < 4*BlockSize; try++ {
		if a.next >= len(a.blocks)*BlockSize {
			if !a.grow() {
				if len(a.blocks) == 0 {
					return 0
				}
				a.next = 0 // pool exhausted: go round the owned blocks again
			}
		}
		port := PoolBase + a.blocks[a.next/BlockSize]*BlockSize + a.next%BlockSize
		a.next++
		if ProbeFree(port) {
			return int32(port)
		}
	}
	return 0
}

// Block acquires one more block for exclusive use by the caller and returns its first port (BlockSize consecutive
// ports); the ports of such a block are never handed out by Take. ok=false if the whole pool is taken.
func (a *Allocator) Block() (base int, ok bool) {
	a.mu.Lock()
	defer a.mu.Unlock()
	n := len(a.blocks)
	if !a.grow() {
		return 0, false
	}
	b := a.blocks[n]
	// keep the lock file, take the block out of Take's rotation
	a.blocks = a.blocks[:n]
	a.reserved = append(a.reserved, b)
	return PoolBase + b*BlockSize, true
}
