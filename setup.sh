#!/bin/bash
# Offline setup: checks the toolchain and pre-warms the Go build cache for every engine (plain and -race).
set -u
cd /verif/harness || exit 1
export GOFLAGS=-mod=mod GOPROXY=off GOSUMDB=off GOTOOLCHAIN=local CGO_ENABLED=1
go version || exit 1
mkdir -p /verif/.build/setup /verif/evidence /verif/replay
rc=0
for d in cmd/*/; do
  e=$(basename "$d")
  race=()
  case "$e" in ipamconc|racemon) race=(-race);; esac
  echo "pre-building $e ${race[*]:-}"
  go build -tags verif "${race[@]}" -o /verif/.build/setup/$e ./cmd/$e || rc=1
done
# C19 runs these two engines race-built as workloads
for e in cnisim polsim; do
  echo "pre-building $e -race"
  go build -tags verif -race -o /verif/.build/setup/$e.race ./cmd/$e || rc=1
done
rm -rf /verif/.build/setup
exit $rc
