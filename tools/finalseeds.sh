#!/bin/bash
# Final pass: for every seeded change, apply it to /repo itself (git -C /repo apply), run the checks named in
# seeded/CHECKS.txt (quick tier, default seed, evidence redirected so that the registered evidence is not overwritten),
# and undo it straight afterwards (git -C /repo checkout -- .). Appends "final ..." lines to seeded/<name>/verify.log.
# usage: tools/finalseeds.sh [name-prefix]
cd /verif || exit 2
[ -n "$(git -C /repo status --porcelain)" ] && { echo "/repo is not clean"; exit 2; }
export VERIF_OUT_DIR=/tmp/verif-final-seedout
while read -r name props; do
  [ -z "$name" ] && continue
  [ -n "${1:-}" ] && [[ "$name" != $1* ]] && continue
  d=/verif/seeded/$name
  [ -f $d/patch.diff ] || { echo "no patch for $name"; continue; }
  git -C /repo apply $d/patch.diff || { echo "final $name: patch does not apply to /repo HEAD" | tee -a $d/verify.log; continue; }
  sed -i '/^final /d' $d/verify.log
  echo "final repo_head=$(git -C /repo rev-parse --short HEAD) verif_head=$(git rev-parse --short HEAD)" >> $d/verify.log
  for p in $props; do
    t0=$(date +%s)
    o=$(./check $p 2>&1); rc=$?
    t1=$(date +%s)
    sigs=$(echo "$o" | grep '^  sig=' | grep -o 'sig=[^ ]*' | sort | uniq -c | sort -rn | head -6 | tr '\n' ';')
    echo "final check $p rc=$rc $((t1-t0))s sigs: $sigs" | tee -a $d/verify.log
  done
  git -C /repo checkout -- .
  [ -n "$(git -C /repo status --porcelain)" ] && { echo "/repo not clean after $name"; exit 2; }
done < /verif/seeded/CHECKS.txt
