#!/bin/bash
# usage: tools/tryseed.sh <worktree> <seedN> <name> <prop> [more props...]
# Verifies a seeded change in its scratch worktree (builds, demo passes without / fails with, baseline tests unchanged),
# copies it to /verif/seeded/<name>/, runs the given checks against the patched worktree (VERIF_REPO) and records the outcome.
wt=$1; sd=$2; name=$3; shift 3; props=("$@")
export GOFLAGS=-mod=mod GOPROXY=off GOSUMDB=off GOTOOLCHAIN=local
out=/verif/seeded/$name; mkdir -p $out
cd $wt || exit 2
git checkout -q -- . 2>/dev/null
git status --short | grep -v '^?? seed' && { echo "worktree not clean"; }
res=$out/verify.log; : > $res
bash $sd/demo.sh > $out/demo_clean.log 2>&1; d0=$?
git apply $sd/patch.diff || { echo "patch does not apply" | tee -a $res; exit 2; }
go build ./pkg/... ./cni/... ./cmd/... > $out/build.log 2>&1; b=$?
bash $sd/demo.sh > $out/demo_patched.log 2>&1; d1=$?
# baseline tests with the patch
go test -json -vet=off -count=1 ./pkg/... ./cni/... 2>/dev/null | python3 -c "
import sys,json
ps=set()
for l in sys.stdin:
    try: e=json.loads(l)
    except: continue
    if e.get('Test') and e['Action']=='pass': ps.add(e['Package']+'::'+e['Test'])
base=set(json.load(open('/root/.vp/BASELINE.json'))['stable_pass'])
base={b for b in base if not b.startswith('tkestack.io/galaxy/e2e')}
missing=sorted(base-ps)
print('baseline_missing', len(missing), missing[:5])
" > $out/tests.log 2>&1
echo "demo_clean_rc=$d0 build_rc=$b demo_patched_rc=$d1 $(cat $out/tests.log)" | tee -a $res
cp $sd/patch.diff $out/patch.diff; cp $sd/meta.json $out/agent_meta.json 2>/dev/null
mkdir -p $out/demo; cp $sd/* $out/demo/ 2>/dev/null; rm -f $out/demo/patch.diff
# run the checks against the patched tree
for p in "${props[@]}"; do
  t0=$(date +%s)
  o=$(VERIF_OUT_DIR=/tmp/verif-seedout VERIF_REPO=$wt /verif/check $p 2>&1); rc=$?
  t1=$(date +%s)
  sigs=$(echo "$o" | grep '^  sig=' | grep -o 'sig=[^ ]*' | sort | uniq -c | sort -rn | head -6 | tr '\n' ';')
  echo "check $p rc=$rc $((t1-t0))s sigs: $sigs" | tee -a $res
done
git apply -R $sd/patch.diff
git status --short | grep -v '^?? seed'
