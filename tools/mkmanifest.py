#!/usr/bin/env python3
"""Generates /verif/MANIFEST.json. Edit IMPLEMENTED / the tables below, then run it."""
import json, os

IMPLEMENTED = os.environ.get("VERIF_IMPLEMENTED", "").split() or [
    "C01", "C02", "C03", "C04", "C05", "C06", "C08", "C10", "C07", "C09", "C11", "C12", "C13", "C14", "C15", "C16", "C17", "C18", "C19", "C20",
]

ENGINE = {
    "C01": "ipamsim", "C02": "ipamsim", "C03": "ipamsim", "C04": "ipamsim", "C05": "ipamsim", "C06": "ipamsim",
    "C08": "ipamsim", "C10": "ipamsim", "C07": "ipamconc", "C09": "ipamconc", "C11": "keysapi", "C12": "cnisim",
    "C13": "cnisim", "C14": "pmsim", "C15": "polsim", "C16": "polsim", "C17": "gcsim", "C18": "fuzzmon",
    "C19": "ipamconc", "C20": "confmodel",
}

SIM_NOTE = ("Trusted: the fake API server (client-go object trackers plus a pods/binding reactor emulating NotFound/"
            "Conflict/annotation merge), the harness's informer model (caches lag truth arbitrarily, never reorder one "
            "resource's events; the unbind worker is decoupled through a harness-owned queue), and the reference models in "
            "harness/model and cmd/ipamsim/monitors.go. Only whole entry-point calls are observed (no mid-call states). "
            "Held on the executions produced, nothing more.")

CHECKS = {
    "C01": ("exploration",
            "Real FloatingIPPlugin + CRD IPAM + HTTP API driven through PRNG histories over generated topologies and "
            "workloads; after every step a monitor checks single ownership in the IPAM dump and that no two live pods were "
            "told the same IP in their binding annotation (binding log of the fake API server) and that a live pod's told IP "
            "is keyed to it. Includes delayed/lost events, same-name re-incarnations, resync, API release, reload, restart, "
            "and single API-call failures / crashes at sampled call indices, and interleaved executions in which one entry "
            "point is paused at its k-th API call while other entry points run to completion (resync vs re-creation, API "
            "release vs rebind). Second engine (race build): concurrent mixed rounds on one plugin instance with the same "
            "ownership monitors at barriers, and short concurrent histories of the bare IPAM interface (<= 8 addresses, <= 40 "
            "operations, 3-6 clients) checked for linearizability with porcupine against an ip->key map model.",
            "runtime monitoring: invariant monitor over binding log + IPAM dump after every step of simulated and interleaved histories with injected faults; porcupine linearizability check of recorded concurrent IPAM histories",
            "3 (C01)", SIM_NOTE),
    "C02": ("exploration",
            "Same histories, skewed to immutable/never (70%); at every Filter the harness snapshots what the pod's key and "
            "its app/pool reserve hold, at the matching successful Bind the binding annotation must name exactly the held IP "
            "(per requested range), and a deployment/pool pod with a reserve must take one of the reserved IPs; at bind time a "
            "pod whose filter-time hand-over was undone (it holds nothing although a routable reserve exists) must not get a fresh IP. "
            "Every 4th step, if a filter, is re-run on clones with one cleanly failing API call per call index; a filter that still reports "
            "success is followed by the scheduler's bind and judged by the same stickiness rules.",
            "runtime monitoring: before/after state comparison around filter and bind in simulated histories",
            "3 (C02)", SIM_NOTE),
    "C03": ("exploration",
            "Release-policy reference model written from doc/float-ip.md: 'kept until' is checked on every ownership change "
            "(each freed/re-keyed IP must be justified by policy, replicas seen in truth or lister, or an API release), "
            "'released when due' at quiescent points (all events delivered, release queue drained, exactly one resync). The policy "
            "in force is the one the workload declares (what IPAM stored is under test). A seeded overlap suspends one unbind of "
            "a scaled-down immutable deployment right after it counted the app's IPs (IPAM-call pause point) while a second "
            "unbind runs; an aggregate rule bounds how many IPs a deployment may lose in one step.",
            "runtime monitoring: lock-step reference model of the documented release policy at every step and at quiescent points",
            "3 (C03)", SIM_NOTE),
    "C04": ("exploration",
            "After every step each live bound pod must still own the IPs of its binding annotation; seeded scenario templates "
            "produce the orderings the property names (late delete event of an older incarnation after the replacement is "
            "bound; bind while the old delete is unhandled; lister still holding the old incarnation during Bind) on top of "
            "random histories; API release over real HTTP; provider unassign of a live pod's IP is caught by the provider FSM. "
            "Interleaved executions pause resync / unbind / the release API at each of their API calls while the pod is deleted, "
            "re-created and re-bound in between. Second engine (race build): concurrent mixed rounds (schedule, delete, "
            "re-create, resync, API release, loop workers) with the live-pod-keeps-its-IP monitor at barriers.",
            "runtime monitoring: ownership invariant after every step + seeded event-order templates + paused-call interleavings + concurrent stress rounds under the race detector",
            "3 (C04)", SIM_NOTE),
    "C05": ("fault_enumeration",
            "For sampled steps of every history the operation is re-executed from a deep copy of the world once per API-call "
            "index (all indices in thorough) and per injection kind (clean failure, lost reply, crash before, crash after); "
            "after each, memory vs FloatingIP objects are compared field by field; crashes are followed by restart (plugin "
            "rebuilt from the store) + resync + pod-IP sync and the ownership / no-leak monitors; every clone start doubles as "
            "a restart-reconstructs-same-state check. Lost-reply disagreements are counted, not judged. A cleanly failed bind "
            "is followed by the scheduler's retry on another node, a failed reload by the periodic loop's retry with the same text.",
            "runtime monitoring with exhaustive per-operation fault/crash injection at API-call boundaries",
            "3 (C05)", SIM_NOTE),
    "C06": ("exploration",
            "Every Filter result is checked against an integer-set model of the input configuration (fresh default pod: "
            "offered == nodes with a free routable IP; pod holding an IP: offered subset of routable nodes); for offered nodes "
            "Bind is executed on a frozen deep copy of the world and must succeed (or wait for the old pod), with IP, mask, "
            "gateway and VLAN equal to the pool's input configuration.",
            "runtime monitoring: differential check of filter/bind results against an independent topology model",
            "3 (C06)", SIM_NOTE),
    "C07": ("exploration",
            "Sequential engine: the pool-size monitor runs after every step of simulated histories (pool creation, "
            "pre-allocation, size changes, deployments sharing a pool, faults). Start-up engine (startsim): the real ipamcontext.NewIPAMContext + StartInformers "
            "(client-go informers over fake clientsets with slow list replies) in the order of pkg/ipam/server; a pool filled to its size by a first process must "
            "not grow by the first filter/bind a restarted process answers right after StartInformers + Init returned. Concurrent engine: race-built real plugin with its Run() loop workers: one goroutine per pod runs filter->bind for deployments sharing "
            "a sized pool while an administrator goroutine changes the size / pre-allocates through the real HTTP API and a churn "
            "goroutine deletes bound pods; yields are injected at every API call of galaxy. An observer counts the IPs held under "
            "the pool after every operation and continuously; growth beyond the largest size any in-flight or just-returned "
            "allocating call could have seen is a violation (weakest reading of 'size in force').",
            "runtime monitoring: online invariant monitor under concurrency stress with injected yields (+ race detector)",
            "3 (C07)", "Trusted: fake API server, event pump; the bound is the largest size visible (truth or lister) to any call "
            "in flight since the previous observation, so an alarm is a genuine over-allocation. Statefulset/bare pods with a pool "
            "annotation are not capped by the anchored code path and are not judged."),
    "C08": ("fault_enumeration",
            "Pods with 1-3 pairwise-disjoint requested range lists (spanning pools, partly exhausted, partly pre-owned); "
            "successful binds must carry k distinct IPs, i-th in i-th range, in order; failed binds and empty filters must leave "
            "dump and store exactly as before; every FloatingIP create/delete call index of explored binds is failed.",
            "runtime monitoring with per-call fault injection on multi-IP binds",
            "3 (C08)", SIM_NOTE),
    "C09": ("exploration",
            "Sequential engine: reload / reservation clauses after every step of simulated histories incl. faults and crashes "
            "inside a reload. Concurrent rounds: 4-7 workers create/schedule/delete pods while a reloader applies 3-5 mutated configurations "
            "through the real updateConfigMap (a delay is injected right after the reload's store list) and an administrator "
            "reserves/unreserves addresses with labelled FloatingIP objects whose watch events are pumped with lag. At a barrier "
            "(workers joined, pump drained, loop workers quiescent, two identical observations with no API call in between): memory "
            "and store agree on every configured IP, no allocation made during a reload is lost, no admin-reserved or de-configured "
            "IP is allocated, de-configured objects are gone.",
            "runtime monitoring: barrier-time state comparison after concurrent reload/reserve/allocate rounds with widened windows",
            "3 (C09)", "Trusted: fake API server, event pump, barrier detection (API-call counter stable)."),
    "C10": ("exploration",
            "A recording cloud provider's call log is replayed through a per-IP state machine after every step: no assign to a "
            "second node while assigned, every live bound pod's IPs assigned to its node, no owner change while assigned; "
            "provider calls are failed cleanly (every provider call index of sampled steps) and the real retry paths (release "
            "queue, resync) are run; keys holding several IPs, API release and resync release are included; a cleanly failed "
            "bind is retried on another offered node; while the provider has an IP assigned the FloatingIP object must name that node.",
            "runtime monitoring: per-IP state machine over the recorded provider call log",
            "3 (C10)", SIM_NOTE),
    "C11": ("exploration",
            "Key laws (injectivity, ParseKey round trip, prefix containment) over generated pods of every owner kind, and API "
            "laws against the real api.Controller served over HTTP on IPAMs populated with every key kind: paging shows each "
            "allocated IP exactly once (owner kinds include adversarial prefix/suffix/plural variants of the built-in kinds on "
            "the same names), every listed releasable entry posted back releases exactly that IP (also with appType "
            "omitted for statefulsets), cross-owner posts change nothing, and an entry's outcome in a mixed batch equals its "
            "outcome when posted alone (forced adjacencies of entries with and without appType).",
            "runtime monitoring: property-based law checking against the real key codec and HTTP API",
            "3 (C11)",
            "Trusted: the harness's own notion of which inputs are inside the quantifier (DNS-1123 names; kinds that lower-case to "
            "a DNS-1035 label); free-text pool names are judged as a separately signed class."),
    "C12": ("fault_enumeration",
            "Real galaxy /cni handler over httptest with one recording fake plugin binary linked under every network type; an "
            "independent model predicts network selection, interface names, the ADD/rollback/DEL invocation sequence for every "
            "failure pattern (all 2^N ADD masks x rollback masks for N<=3; DEL1 x DEL2), HTTP status, and exactly what each "
            "plugin receives (isolation: stdin/args recomputed from the pod and static config; prevResult must come from this "
            "request); concurrent phase in child processes.",
            "runtime monitoring: invocation-log checking against a call-sequence model with enumerated plugin failures",
            "3 (C12)",
            "Trusted: the fake plugin's log (flock-serialised), the model in cmd/cnisim/model.go; per-delegate accumulation of "
            "extended CNI args is treated as inside the contract (depends only on pod + static config)."),
    "C13": ("exploration",
            "Composition: real plugin Filter+Bind over generated pools (masks /16-/30, VLAN 0-4094, k=1-4 IPs) produces the "
            "annotation, real galaxy ADD passes it on, the logged CNI_ARGS are decoded with the plugins' own cni/ipam.Allocate "
            "and compared element by element with the FloatingIP objects + input configuration.",
            "runtime monitoring: end-to-end differential check IPAM store -> annotation -> daemon -> plugin decoder",
            "3 (C13)", "Trusted: fake clientsets, the fake plugin's log."),
    "C14": ("exploration",
            "Real PortMappingHandler over a strict iptables fake and real sockets: inverse law (setup+clean restores the NAT "
            "table, other pods' and foreign rules byte-identical), convergence/idempotence of the full sync from stale and "
            "foreign prior tables against a reference that does not use galaxy's chain hash, ports distinct/held/released "
            "(bind() probes), failed open leaves nothing bound; rejected batches are violations. Concurrent stage: per pod name one opener and one closer goroutine "
            "hammer OpenHostports/CloseHostports on one handler (late DEL of the old sandbox vs ADD of the re-created same-named pod); at every quiescent point "
            "(both stopped, one more CloseHostports returned) no socket of the process may still hold the pod's ports. Thorough calibrates the fake "
            "against real iptables in unshare -n. Second engine (cnisim -prop C14): the daemon above the handler - ADD/DEL over the "
            "real /cni handler for pods with host ports, daemon restart (start-up pass), the GC clean-port callback, one failing "
            "iptables operation per step position followed by kubelet DEL / repeated DEL / GC clean; NAT dump, this process's "
            "sockets (/proc/net) and port-state files must show nothing of a torn-down or failed pod and everything of the others.",
            "runtime monitoring: state-comparison laws over a strict kernel model + real socket probes; concurrent open/close stress judged by a quiescent-point socket invariant",
            "3 (C14)", "Trusted: harness/fakes/iptables.go (calibrated against iptables 1.8.9 nf_tables in the thorough tier)."),
    "C15": ("exploration",
            "Real PolicyManager (hook constructor) over strict ipset/iptables fakes and harness-written informer caches: after "
            "a full sync the GLX sets, policy chains and local pod chains must equal those of a fresh manager synced on empty "
            "fakes with the same cluster state (prior states: other clusters, event sequences incl. cache-ahead-of-handler, "
            "planted stale GLX objects, restarts); a second sync must change nothing; foreign chains/rules/sets/tables must be "
            "byte-identical; the fakes' reject logs must hold no missing-chain/missing-set/in-use rejection. A quarter of the "
            "cases each run the manager over the exec-backed ipset / iptables runners with a fake exec that interprets their "
            "command lines against the same strict stores; IP-less re-created pods, upper-case hostname overrides and two "
            "shapes of pod-add events are part of the inputs. A stage with one failing ipset/iptables operation is recorded as "
            "observations only (tool failures are outside the quantifier).",
            "runtime monitoring: differential convergence/idempotence oracle + reject log of a strict kernel model",
            "3 (C15)", "Trusted: harness/fakes (iptables part calibrated against the real tool by the C14 thorough tier; ipset "
            "semantics follow the kernel documentation, the ipset binary is not installed here)."),
    "C16": ("exploration",
            "A packet walker over the installed rules and sets (FORWARD -> GLX-EGRESS/GLX-INGRESS -> pod chain -> policy "
            "chains; -s/-d, -p, set matches with nomatch, multiport, conntrack NEW) is compared, flow by flow, with a reference "
            "evaluator of the Kubernetes NetworkPolicy API semantics over generated clusters with quotas for the interesting "
            "policy shapes; every mismatch is classified by the policy shape that explains it. Besides fresh managers, managers "
            "with a history are judged: cluster A synced, 1-3 mutations, then a full sync; and for single-mutation transitions "
            "the state right after the event handler. History-only mismatches are attributed by causal substitution.",
            "runtime monitoring: differential verdict comparison packet-walk vs reference evaluator over generated flows",
            "3 (C16)", "Trusted: the reference evaluator (cmd/polsim/ref.go), the walker's iptables/ipset semantics, the fakes."),
    "C17": ("exploration",
            "The real flannel GC (NewFlannelGC(...).Run(), 20 ms interval) over generated directory populations with a fake Docker "
            "Engine API on a unix socket and, in a second mode, a fake CRI PodSandboxStatus gRPC server; answers are scripted per "
            "container (running/created/paused/exited/dead/404/500/garbage/reset/slow; READY/NOTREADY/NotFound/Unavailable + pod "
            "lookup). Safety: nothing of a container is removed and no clean-port callback fires before a 'dead' answer was served "
            "for it, nothing is removed during runtime outages, non-container files stay. Bounded liveness in GC passes (counted by "
            "sentinel inspects), not time. With the daemon's real clean-port callback over a strict iptables fake (transient and "
            "permanent operation failures) a dead container's port mapping must never be orphaned (rules left, port file gone).",
            "runtime monitoring: event-order monitor (inspect log vs deletions/callbacks) with scripted runtime faults",
            "3 (C17)", "Trusted: the fake runtimes; cleanupVeth (netlink) is not monitored."),
    "C18": ("exploration",
            "Generation-based fuzzing of six surfaces of the real code in child processes (scheduler-plugin entry points with "
            "hostile pods incl. ranges ending at 255.255.255.255; the HTTP API; watched objects; configuration text; galaxy's "
            "/cni handler and parsers; every valid NetworkPolicy through the policy manager): each input is journalled before "
            "the call, panics are recovered at the surface boundary (violation), a watchdog (10 s, 30 s for /cni ADD) dumps the "
            "goroutines and the parent classifies wedged-in-galaxy (violation) vs starved (inconclusive, re-run alone), and after "
            "every call a lock probe on the same instance must return.",
            "runtime monitoring: fuzzing under a watchdog with panic recovery and lock probes in journalled child processes",
            "3 (C18)", "Wall-clock watchdogs are the sanctioned exception (the property is about termination). No coverage feedback. "
            "Objects a real API server cannot deliver (Deployment with nil replicas, CRD without versions) are exercised but only counted."),
    "C19": ("exploration",
            "Go race detector over child processes running: every galaxy-ipam entry point concurrently on one plugin instance (mix), "
            "sized-pool and reload rounds, bare IPAM stress with a linearizability-checked history, and the race-built cnisim "
            "(concurrent /cni ADD/DEL over shared network configs) and polsim (policy syncs and events, per-pod goroutines) engines; "
            "reports are de-duplicated by the innermost galaxy frames of both stacks; fatal 'concurrent map' errors are violations.",
            "runtime monitoring: Go race detector over concurrency stress workloads",
            "3 (C19)", "Only races on executed, overlapping paths are seen; no static lock-discipline analysis. Harness fakes are "
            "goroutine-safe; a report with both stacks in harness code marks the run broken."),
    "C20": ("exploration",
            "Grammar-based configurations (valid and one mutation away, boundary addresses) decoded by the real code and by an "
            "independent parser into an integer-set model; laws: ranges inside subnet, sorted/disjoint/unmergeable, Size == "
            "|set|, Contains == membership, enumeration via ConfigurePool == set (watchdogged children), Marshal/Unmarshal "
            "identity, InsertIP/RemoveIP track the model; rejected texts return an error and a reload attempt changes nothing.",
            "runtime monitoring: differential law checking against an independent integer-set model",
            "3 (C20)", "Trusted: the independent parser/model in cmd/confmodel/model.go."),
}

props = [json.loads(l) for l in open("/verif/properties.jsonl")]
checks, na = [], []
for p in props:
    pid = p["id"]
    if pid in IMPLEMENTED and pid in CHECKS:
        cat, text, tech, ref, note = CHECKS[pid]
        checks.append({
            "property_id": pid,
            "quick_cmd": f"./check {pid} --tier quick",
            "thorough_cmd": f"./check {pid} --tier thorough",
            "evidence_file": f"/verif/evidence/{pid}.json",
            "replay_cmd_template": f"./check {pid} --replay {{path}}",
            "engine": ENGINE[pid],
            "level_claimed": {"category": cat, "text": text, "design_ref": "DESIGN.md section " + ref},
            "level_note": note,
            "technique": tech,
        })
    else:
        na.append({"property_id": pid,
                   "reason": "check not finished yet in this round (engine %s under construction, DESIGN.md section 9); "
                             "the technique applies, nothing is claimed until the monitor is silent on the unchanged tree"
                             % ENGINE[pid]})
engines = {}
for c in checks:
    engines.setdefault(c["engine"], []).append(c["property_id"])
hooks = os.popen("git -C /repo log --format=%h --grep='^verif hooks'").read().split()
m = {
    "version": 1,
    "setup_cmd": "cd /verif && ./setup.sh",
    "hooks": {
        "guard": "verif",
        "enable": "go build -tags verif: ./check builds every engine from /verif/harness (module verif/harness, "
                  "replace tkestack.io/galaxy => /repo) with -tags verif, -race for ipamconc (and for cnisim/polsim when run as C19 workloads)",
        "baseline_off_cmd": "cd /repo && GOFLAGS=-mod=mod GOPROXY=off GOSUMDB=off GOTOOLCHAIN=local go test -json -vet=off -count=1 -timeout 25m ./...",
        "source_commits": hooks,
        "add_only": True,
    },
    "engines": [{"name": e, "path": f"/verif/harness/cmd/{e}", "serves_properties": ps,
                 "kind_free_text": "Go program running the real galaxy code under generated workloads with runtime monitors"}
                for e, ps in sorted(engines.items())],
    "checks": checks,
    "notes": "Every check: exit 0 held, 1 + VIOLATION line, 2 inconclusive (never a violation). Known findings: "
             "/verif/known_findings.txt (matched by specific signature). Seeds: VERIF_SEED; tiers: --tier or VERIF_TIER.",
    "not_applicable": na,
}
json.dump(m, open("/verif/MANIFEST.json", "w"), indent=1)
print("checks:", [c["property_id"] for c in checks], "not claimed:", [n["property_id"] for n in na])
