#!/usr/bin/env python3
"""Builds /verif/seeded/<name>/meta.json from agent_meta.json + verify.log and /verif/seeded/RESULTS.md."""
import json, os, re, glob

root = "/verif/seeded"
rows = []
for d in sorted(glob.glob(root + "/*/")):
    name = os.path.basename(d.rstrip("/"))
    vlog = os.path.join(d, "verify.log")
    if not os.path.exists(vlog):
        continue
    superseded = os.path.exists(os.path.join(d, "SUPERSEDED.txt"))
    am = {}
    try:
        am = json.load(open(os.path.join(d, "agent_meta.json")))
    except Exception:
        pass
    lines = open(vlog).read().splitlines()
    ver = {}
    checks = []
    for l in lines:
        m = re.match(r"demo_clean_rc=(\d+) build_rc=(\d+) demo_patched_rc=(\d+) baseline_missing (\d+)", l)
        if m:
            ver = {"demo_on_clean_tree_rc": int(m.group(1)), "build_rc": int(m.group(2)),
                   "demo_with_patch_rc": int(m.group(3)), "baseline_tests_missing_with_patch": int(m.group(4))}
        m = re.match(r"(?:final )?check (C\d+) rc=(\d+) (\d+)s sigs: (.*)", l)
        if m:
            sigs = re.findall(r"sig=([^;\s]+)", m.group(4))
            checks.append({"check": m.group(1), "tier": "quick", "exit": int(m.group(2)), "seconds": int(m.group(3)),
                           "signatures": sigs, "against": "/repo with the patch applied (git -C /repo apply; undone afterwards)"
                           if l.startswith("final ") else "the sub-agent's scratch worktree with the patch applied (VERIF_REPO)"})
    # keep the last result per check (re-runs after strengthening come later in the log)
    last = {}
    for c in checks:
        last[c["check"]] = c
    prop = am.get("property") or name.split("-")[0]
    detected = [c["check"] for c in last.values() if c["exit"] == 1]
    valid = ver.get("demo_on_clean_tree_rc") == 0 and ver.get("demo_with_patch_rc", 0) != 0 and ver.get("build_rc") == 0 \
        and ver.get("baseline_tests_missing_with_patch") == 0
    meta = {
        "property": prop,
        "summary": am.get("summary", ""),
        "needs_to_manifest": am.get("needs", ""),
        "files_changed": am.get("files", []),
        "confirmed_in_scratch_worktree": ver,
        "kept": bool(valid) and not superseded,
        "superseded_by_fix": open(os.path.join(d, "SUPERSEDED.txt")).read() if superseded else None,
        "what_was_run": "tools/tryseed.sh: in the sub-agent's scratch worktree of /repo: demo on clean HEAD, git apply patch.diff, "
                        "go build ./pkg/... ./cni/... ./cmd/..., demo with patch, go test -json ./pkg/... ./cni/... compared with "
                        "BASELINE.json stable_pass; then ./check <prop> (quick tier, default seed) built against the patched worktree "
                        "(VERIF_REPO), then the patch reverted. Finally tools/finalseeds.sh: git -C /repo apply patch.diff, the checks of "
                        "seeded/CHECKS.txt (quick, default seed, evidence redirected), git -C /repo checkout -- . ('final' lines of verify.log; "
                        "checks_run holds the last result per check)",
        "checks_run": list(last.values()),
        "detected_by": detected,
    }
    json.dump(meta, open(os.path.join(d, "meta.json"), "w"), indent=1)
    if not superseded:
        rows.append((name, prop, valid, detected, last))

with open(root + "/RESULTS.md", "w") as f:
    f.write("# Seeded changes: which checks catch which\n\n")
    f.write("Each change was produced by a fresh sub-agent that saw only the property text and a scratch worktree; it compiles, "
            "passes the baseline suite, and its demonstration fails with the change and passes without (verified by tools/tryseed.sh). "
            "Checks were run in the quick tier at the default seed; the results below are those of the final pass "
            "(tools/finalseeds.sh: patch applied to /repo itself, checks run, patch reverted).\n\n")
    f.write("| seeded change | property | confirmed | detected by (exit 1) | run but silent | signatures |\n|---|---|---|---|---|---|\n")
    for name, prop, valid, detected, last in rows:
        silent = [c for c, v in last.items() if v["exit"] == 0]
        broken = [c for c, v in last.items() if v["exit"] not in (0, 1)]
        sigs = sorted({s for v in last.values() if v["exit"] == 1 for s in v["signatures"]})
        f.write("| %s | %s | %s | %s | %s%s | %s |\n" % (name, prop, "yes" if valid else "NO", ", ".join(detected) or "-",
                                                      ", ".join(silent) or "-", (" (broken: " + ", ".join(broken) + ")") if broken else "",
                                                      "; ".join(sigs)[:300]))
    nd = sum(1 for r in rows if r[2] and r[3])
    nv = sum(1 for r in rows if r[2])
    f.write("\n%d of %d confirmed changes are detected by at least one quick check.\n" % (nd, nv))
print(open(root + "/RESULTS.md").read())
