#!/bin/bash
# usage: tools/sweep.sh "<seeds>" [tier] [props...]   -- runs every claimed check at each seed, one summary line per run.
# Evidence/replay of sweep runs go to $VERIF_OUT_DIR (default /tmp/verif-sweep) so registered evidence is not overwritten.
seeds=${1:-"1 2 3"}; tier=${2:-quick}; shift 2 2>/dev/null
props=("$@")
[ ${#props[@]} -eq 0 ] && props=($(python3 -c "import json;print(' '.join(c['property_id'] for c in json.load(open('/verif/MANIFEST.json'))['checks']))"))
export VERIF_OUT_DIR=${VERIF_OUT_DIR:-/tmp/verif-sweep}
mkdir -p $VERIF_OUT_DIR
for s in $seeds; do
  for p in "${props[@]}"; do
    t0=$(date +%s)
    out=$(VERIF_SEED=$s /verif/check $p --tier $tier 2>&1); rc=$?
    t1=$(date +%s)
    echo "seed=$s $p rc=$rc $((t1-t0))s $(echo "$out" | grep -c '^VIOLATION') violations $(echo "$out" | grep -c '^KNOWN-FINDING') known"
    if [ $rc -ne 0 ]; then echo "$out" | grep -A1 "^VIOLATION\|INCONCLUSIVE\|BUILD FAILED\|exit code" | cut -c1-400 | head -12; fi
  done
done
